From ZV Require Import Base.Prelude Model.Scan.

(* ---------------------------------------------------------------- segments *)

(* [seg x y]: x is a contiguous part of y *)
Definition seg (x y : bytes) : Prop := exists a b, y = a ++ x ++ b.

Lemma seg_refl x : seg x x.
Proof. exists [], []. rewrite app_nil_r. reflexivity. Qed.

Lemma seg_trans x y z : seg x y -> seg y z -> seg x z.
Proof.
  intros [a [b E1]] [c [d E2]]. exists (c ++ a), (b ++ d).
  subst. repeat rewrite <- app_assoc. reflexivity.
Qed.

Lemma seg_app_l x y a : seg x y -> seg x (a ++ y).
Proof. intros [c [d E]]. exists (a ++ c), d. subst. rewrite <- app_assoc. reflexivity. Qed.

Lemma seg_app_r x y b : seg x y -> seg x (y ++ b).
Proof. intros [c [d E]]. exists c, (d ++ b). subst. repeat rewrite <- app_assoc. reflexivity. Qed.

Lemma seg_nil y : seg [] y.
Proof. exists [], y. reflexivity. Qed.

Lemma prefixb_app p b : prefixb p (p ++ b) = true.
Proof. induction p as [|x p IH]; simpl; [reflexivity|]. rewrite N.eqb_refl. exact IH. Qed.

Lemma prefixb_split p : forall t, prefixb p t = true -> exists b, t = p ++ b.
Proof.
  induction p as [|x p IH]; intros t H; simpl in *.
  - exists t. reflexivity.
  - destruct t as [|y t]; [discriminate|].
    apply andb_true_iff in H as [H1 H2]. apply N.eqb_eq in H1. subst.
    destruct (IH _ H2) as [b E]. exists b. subst. reflexivity.
Qed.

Lemma contains_prefix t p : prefixb p t = true -> contains t p = true.
Proof. intros H. destruct t; simpl; rewrite H; reflexivity. Qed.

Lemma contains_seg t p : contains t p = true <-> seg p t.
Proof.
  split.
  - induction t as [|y t IH]; simpl; intros H.
    + rewrite orb_false_r in H. destruct (prefixb_split _ _ H) as [b E]. exists [], b. exact E.
    + apply orb_true_iff in H as [H|H].
      * destruct (prefixb_split _ _ H) as [b E]. exists [], b. exact E.
      * destruct (IH H) as [a [b E]]. exists (y :: a), b. subst. reflexivity.
  - intros [a [b E]]. subst. induction a as [|y a IH].
    + apply contains_prefix. simpl. apply prefixb_app.
    + simpl. change (contains (a ++ p ++ b) p) with (contains (a ++ p ++ b) p).
      rewrite IH. apply orb_true_r.
Qed.

Lemma lowers_app a b : lowers (a ++ b) = lowers a ++ lowers b.
Proof. apply map_app. Qed.

Lemma seg_lowers x y : seg x y -> seg (lowers x) (lowers y).
Proof. intros [a [b E]]. exists (lowers a), (lowers b). subst. repeat rewrite lowers_app. reflexivity. Qed.

(* a match inside a part is a match in the whole *)
Lemma contains_mono t m p : seg m t -> contains m p = true -> contains t p = true.
Proof.
  intros S H. apply contains_seg. apply contains_seg in H. eapply seg_trans; eauto.
Qed.

Lemma contains_ci_mono t m p : seg m t -> contains_ci m p = true -> contains_ci t p = true.
Proof.
  unfold contains_ci. intros S H. eapply contains_mono; [|exact H]. apply seg_lowers. exact S.
Qed.

Lemma contains_self p : contains p p = true.
Proof. apply contains_seg. apply seg_refl. Qed.

(* Finder.Next(...) > -1  <->  contains *)
Lemma index_from_nonneg i t p : (0 <= i)%Z -> ((0 <= index_from i t p)%Z <-> contains t p = true).
Proof.
  revert i. induction t as [|y t IH]; intros i Hi; simpl.
  - destruct (prefixb p []); simpl; split; intros; try lia; try reflexivity; discriminate.
  - destruct (prefixb p (y :: t)); simpl.
    + split; intros; [reflexivity|lia].
    + apply IH. lia.
Qed.

Lemma index_of_nonneg t p : (0 <= index_of t p)%Z <-> contains t p = true.
Proof. apply index_from_nonneg. lia. Qed.

(* ---------------------------------------------------------------- induction on values *)

Fixpoint val_ind' (P : val -> Prop)
         (HN : P VNull) (HP : forall b, P (VPrim b))
         (HR : forall vs, Forall P vs -> P (VRec vs))
         (HA : forall vs, Forall P vs -> P (VArr vs)) (v : val) : P v :=
  match v with
  | VNull => HN
  | VPrim b => HP b
  | VRec vs =>
    HR vs ((fix go (l : list val) : Forall P l :=
              match l with
              | [] => Forall_nil _
              | x :: r => Forall_cons _ (val_ind' P HN HP HR HA x) (go r)
              end) vs)
  | VArr vs =>
    HA vs ((fix go (l : list val) : Forall P l :=
              match l with
              | [] => Forall_nil _
              | x :: r => Forall_cons _ (val_ind' P HN HP HR HA x) (go r)
              end) vs)
  end.

(* ---------------------------------------------------------------- unfolding lemmas *)

Definition walk_fields (fs : list (bytes * ty)) (vs : list val) : list (ty * val) :=
  tl (walk (TRec fs) (VRec vs)).
Definition walk_elems (et : ty) (vs : list val) : list (ty * val) :=
  tl (walk (TArr et) (VArr vs)).

Lemma walk_rec fs vs : walk (TRec fs) (VRec vs) = (TRec fs, VRec vs) :: walk_fields fs vs.
Proof. reflexivity. Qed.
Lemma walk_arr et vs : walk (TArr et) (VArr vs) = (TArr et, VArr vs) :: walk_elems et vs.
Proof. reflexivity. Qed.
Lemma walk_fields_cons n ft fs x vs :
  walk_fields ((n, ft) :: fs) (x :: vs) = walk ft x ++ walk_fields fs vs.
Proof. reflexivity. Qed.
Lemma walk_fields_nil_l vs : walk_fields [] vs = [].
Proof. destruct vs; reflexivity. Qed.
Lemma walk_fields_nil_r fs : walk_fields fs [] = [].
Proof. destruct fs as [|[n ft] fs]; reflexivity. Qed.
Lemma walk_elems_cons et x vs : walk_elems et (x :: vs) = walk et x ++ walk_elems et vs.
Proof. reflexivity. Qed.
Lemma walk_elems_nil et : walk_elems et [] = [].
Proof. reflexivity. Qed.

Lemma walk_head t v : exists r, walk t v = (t, v) :: r.
Proof. destruct v; simpl; eexists; reflexivity. Qed.

Lemma walk_other t v :
  (forall fs vs, ~ (t = TRec fs /\ v = VRec vs)) ->
  (forall et vs, ~ (t = TArr et /\ v = VArr vs)) ->
  walk t v = [(t, v)].
Proof.
  intros H1 H2. destruct t, v; simpl; try reflexivity.
  - exfalso. eapply H1. split; reflexivity.
  - exfalso. eapply H2. split; reflexivity.
Qed.

Lemma fnames_cons n ft fs :
  fnames (TRec ((n, ft) :: fs)) =
  (match ft with
   | TRec (_ :: _) => map (fun s => n ++ DOT :: s) (fnames ft)
   | _ => [n]
   end) ++ fnames (TRec fs).
Proof. reflexivity. Qed.

Lemma visible_cons n ft fs : visible (TRec ((n, ft) :: fs)) = visible ft && visible (TRec fs).
Proof. reflexivity. Qed.

(* ---------------------------------------------------------------- encodings nest *)

Lemma seg_tagged b : seg b (tagged b).
Proof. unfold tagged. apply seg_app_l. apply seg_refl. Qed.

Lemma seg_flat_map (x : val) vs : In x vs -> seg (enc_val x) (flat_map enc_val vs).
Proof.
  induction vs as [|y vs IH]; simpl; intros H; [contradiction|].
  destruct H as [H|H].
  - subst. apply seg_app_r. apply seg_refl.
  - apply seg_app_l. apply IH. exact H.
Qed.

Lemma enc_rec vs : enc_val (VRec vs) = tagged (flat_map enc_val vs).
Proof. reflexivity. Qed.
Lemma enc_arr vs : enc_val (VArr vs) = tagged (flat_map enc_val vs).
Proof. reflexivity. Qed.

Lemma seg_child_rec x vs : In x vs -> seg (enc_val x) (enc_val (VRec vs)).
Proof. intros H. rewrite enc_rec. eapply seg_trans; [apply seg_flat_map; exact H|apply seg_tagged]. Qed.
Lemma seg_child_arr x vs : In x vs -> seg (enc_val x) (enc_val (VArr vs)).
Proof. intros H. rewrite enc_arr. eapply seg_trans; [apply seg_flat_map; exact H|apply seg_tagged]. Qed.

(* every value the walk visits is encoded inside the root's encoding *)
Lemma walk_seg : forall v t t' v', In (t', v') (walk t v) -> seg (enc_val v') (enc_val v).
Proof.
  induction v as [| b | vs IH | vs IH] using val_ind'; intros t t' v' H.
  - destruct t; simpl in H; destruct H as [H|[]]; inversion H; subst; apply seg_refl.
  - destruct t; simpl in H; destruct H as [H|[]]; inversion H; subst; apply seg_refl.
  - destruct t as [id | fs | et].
    + simpl in H. destruct H as [H|[]]. inversion H; subst. apply seg_refl.
    + rewrite walk_rec in H. destruct H as [H|H]; [inversion H; subst; apply seg_refl|].
      assert (G : forall fs, In (t', v') (walk_fields fs vs) ->
                             exists x, In x vs /\ seg (enc_val v') (enc_val x)).
      { clear H fs. induction IH as [|x vs Hx Hvs IHvs]; intros fs H.
        - rewrite walk_fields_nil_r in H. contradiction.
        - destruct fs as [|[n ft] fs]; [rewrite walk_fields_nil_l in H; contradiction|].
          rewrite walk_fields_cons in H. apply in_app_or in H as [H|H].
          + exists x. split; [left; reflexivity|]. eapply Hx. exact H.
          + destruct (IHvs _ H) as [y [Hy Sy]]. exists y. split; [right; exact Hy|exact Sy]. }
      destruct (G _ H) as [x [Hx Sx]].
      eapply seg_trans; [exact Sx|]. apply seg_child_rec. exact Hx.
    + simpl in H. destruct H as [H|[]]. inversion H; subst. apply seg_refl.
  - destruct t as [id | fs | et].
    + simpl in H. destruct H as [H|[]]. inversion H; subst. apply seg_refl.
    + simpl in H. destruct H as [H|[]]. inversion H; subst. apply seg_refl.
    + rewrite walk_arr in H. destruct H as [H|H]; [inversion H; subst; apply seg_refl|].
      assert (G : In (t', v') (walk_elems et vs) ->
                  exists x, In x vs /\ seg (enc_val v') (enc_val x)).
      { clear H. induction IH as [|x vs Hx Hvs IHvs]; intros H.
        - rewrite walk_elems_nil in H. contradiction.
        - rewrite walk_elems_cons in H. apply in_app_or in H as [H|H].
          + exists x. split; [left; reflexivity|]. eapply Hx. exact H.
          + destruct (IHvs H) as [y [Hy Sy]]. exists y. split; [right; exact Hy|exact Sy]. }
      destruct (G H) as [x [Hx Sx]].
      eapply seg_trans; [exact Sx|]. apply seg_child_arr. exact Hx.
Qed.

Lemma frame_seg (fr : frame) id t v : In (id, t, v) fr -> seg (enc_val v) (frame_bytes fr).
Proof.
  unfold frame_bytes. induction fr as [|[[id' t'] v'] fr IH]; simpl; intros H; [contradiction|].
  destruct H as [H|H].
  - inversion H; subst. apply seg_app_r. apply seg_app_l. apply seg_refl.
  - apply seg_app_l. apply IH. exact H.
Qed.

Lemma field_lookup_in f : forall fs vs ft x,
  field_lookup f fs vs = Some (ft, x) -> In x vs.
Proof.
  induction fs as [|[n t] fs IH]; intros vs ft x H; simpl in H; [discriminate|].
  destruct vs as [|y vs]; [discriminate|].
  destruct (bytes_eqb n f).
  - inversion H; subst. left. reflexivity.
  - right. eapply IH. exact H.
Qed.

Lemma deref_seg : forall path t v t' v',
  deref path t v = Some (t', v') -> seg (enc_val v') (enc_val v).
Proof.
  induction path as [|f path IH]; intros t v t' v' H; simpl in H.
  - inversion H; subst. apply seg_refl.
  - destruct t as [id | fs | et]; try discriminate.
    destruct v as [| b | vs | vs]; try discriminate.
    + destruct (type_lookup f fs) as [ft|]; [|discriminate].
      eapply IH. exact H.
    + destruct (field_lookup f fs vs) as [[ft x]|] eqn:E; [|discriminate].
      eapply seg_trans; [eapply IH; exact H|].
      apply seg_child_rec. eapply field_lookup_in. exact E.
Qed.

(* ---------------------------------------------------------------- field names *)

Lemma search_type_nonrec term t : (forall fs, t <> TRec fs) -> search_type term t = false.
Proof. intros H. destruct t; try reflexivity. exfalso. eapply H. reflexivity. Qed.

Lemma search_type_field term n ft fs :
  search_type term ft = true -> search_type term (TRec ((n, ft) :: fs)) = true.
Proof.
  unfold search_type. intros H. rewrite fnames_cons. rewrite existsb_app.
  apply orb_true_iff. left.
  destruct ft as [id | fs' | et]; try (simpl in H; discriminate).
  destruct fs' as [|f1 fs']; [simpl in H; discriminate|].
  apply existsb_exists in H as [s [Hs Cs]].
  apply existsb_exists. exists (n ++ DOT :: s). split.
  - apply in_map_iff. exists s. split; [reflexivity|exact Hs].
  - eapply contains_ci_mono; [|exact Cs].
    exists (n ++ [DOT]), []. rewrite app_nil_r. rewrite <- app_assoc. reflexivity.
Qed.

Lemma search_type_tail term n ft fs :
  search_type term (TRec fs) = true -> search_type term (TRec ((n, ft) :: fs)) = true.
Proof.
  unfold search_type. intros H. rewrite fnames_cons. rewrite existsb_app.
  apply orb_true_iff. right. exact H.
Qed.

(* nothing below a type without records has a record type *)
Lemma walk_no_rec : forall v t t' v',
  has_rec t = false -> In (t', v') (walk t v) -> has_rec t' = false.
Proof.
  induction v as [| b | vs IH | vs IH] using val_ind'; intros t t' v' Hr H.
  - destruct t; simpl in H; destruct H as [H|[]]; inversion H; subst; exact Hr.
  - destruct t; simpl in H; destruct H as [H|[]]; inversion H; subst; exact Hr.
  - destruct t as [id | fs | et]; try discriminate;
      simpl in H; destruct H as [H|[]]; inversion H; subst; exact Hr.
  - destruct t as [id | fs | et]; try discriminate.
    + simpl in H; destruct H as [H|[]]; inversion H; subst; exact Hr.
    + rewrite walk_arr in H. destruct H as [H|H]; [inversion H; subst; exact Hr|].
      simpl in Hr.
      induction IH as [|x vs Hx Hvs IHvs].
      * rewrite walk_elems_nil in H. contradiction.
      * rewrite walk_elems_cons in H. apply in_app_or in H as [H|H].
        -- eapply Hx; [exact Hr|exact H].
        -- apply IHvs. exact H.
Qed.

Lemma has_rec_false_search term t : has_rec t = false -> search_type term t = false.
Proof. intros H. apply search_type_nonrec. intros fs E. subst. discriminate. Qed.

(* For a visible type, a field-name match on any type the evaluator's walk
   reaches is also a match on the dotted names of the top-level type. *)
Lemma walk_search_type term : forall v t t' v',
  visible t = true -> In (t', v') (walk t v) ->
  search_type term t' = true -> search_type term t = true.
Proof.
  induction v as [| b | vs IH | vs IH] using val_ind'; intros t t' v' Hv H S.
  - destruct t; simpl in H; destruct H as [H|[]]; inversion H; subst; exact S.
  - destruct t; simpl in H; destruct H as [H|[]]; inversion H; subst; exact S.
  - destruct t as [id | fs | et].
    + simpl in H. destruct H as [H|[]]. inversion H; subst. exact S.
    + rewrite walk_rec in H. destruct H as [H|H]; [inversion H; subst; exact S|].
      revert fs Hv H. induction IH as [|x vs Hx Hvs IHvs]; intros fs Hv H.
      * rewrite walk_fields_nil_r in H. contradiction.
      * destruct fs as [|[n ft] fs]; [rewrite walk_fields_nil_l in H; contradiction|].
        rewrite visible_cons in Hv. apply andb_true_iff in Hv as [Hv1 Hv2].
        rewrite walk_fields_cons in H. apply in_app_or in H as [H|H].
        -- apply search_type_field. eapply Hx; eauto.
        -- apply search_type_tail. apply IHvs; assumption.
    + simpl in H. destruct H as [H|[]]. inversion H; subst. exact S.
  - destruct t as [id | fs | et].
    + simpl in H. destruct H as [H|[]]. inversion H; subst. exact S.
    + simpl in H. destruct H as [H|[]]. inversion H; subst. exact S.
    + simpl in Hv. apply negb_true_iff in Hv.
      assert (R : has_rec t' = false).
      { eapply walk_no_rec; [|exact H]. simpl. exact Hv. }
      rewrite (has_rec_false_search term t' R) in S. discriminate.
Qed.

(* ---------------------------------------------------------------- soundness *)

Lemma bf_string_some p b : bf_string p = Some b -> b = BString p.
Proof. unfold bf_string. destruct (_ <? _)%nat; intros H; [discriminate|]. inversion H. reflexivity. Qed.

Lemma bf_string_case_some p b : bf_string_case p = Some b -> b = BStringCase p.
Proof.
  unfold bf_string_case. destruct (_ <? _)%nat; [discriminate|].
  destruct (is_ascii p); intros H; [|discriminate]. inversion H. reflexivity.
Qed.

Lemma bf_literal_some l b : bf_literal l = Some b -> b = BString (lit_enc l).
Proof.
  unfold bf_literal. destruct (_ || _); [discriminate|]. apply bf_string_some.
Qed.

Lemma bf_literal_not_opaque l b : bf_literal l = Some b -> opaque_lit l = false.
Proof.
  unfold bf_literal, opaque_lit.
  destruct (is_number (lid l) || N.eqb (lid l) ID_NULL); [discriminate|]. simpl.
  unfold bf_string, lit_enc. destruct (lbody l); [reflexivity|]. simpl. discriminate.
Qed.

Lemma body_eqb_enc v l : body_eqb v (lbody l) = true -> enc_val v = lit_enc l.
Proof.
  unfold body_eqb, lit_enc. destruct v as [| x | |]; try discriminate.
  destruct (lbody l) as [y|]; [|discriminate].
  intros H. apply bytes_eqb_eq in H. subst. reflexivity.
Qed.

Lemma const_eq_enc l t v : const_eq l t v = true -> enc_val v = lit_enc l.
Proof.
  unfold const_eq. destruct t; try discriminate. intros H.
  apply andb_true_iff in H as [_ H]. apply body_eqb_enc. exact H.
Qed.

Lemma coerce_eq_enc l t v : coerce_eq l t v = true -> enc_val v = lit_enc l.
Proof.
  unfold coerce_eq. destruct t; try discriminate. intros H.
  apply andb_true_iff in H as [_ H]. apply body_eqb_enc. exact H.
Qed.

Lemma b3_T b : b3 b = T3 -> b = true.
Proof. destruct b; [reflexivity|discriminate]. Qed.

Lemma is_T3_b3 b : is_T3 (b3 b) = true -> b = true.
Proof. destruct b; [reflexivity|discriminate]. Qed.

Section Sound.
  Variable oth : nat -> ty -> val -> tv3.
  Variable lit_oth : expr -> ty -> val -> tv3.

  Notation eval3 := (eval3 oth lit_oth).
  Notation eval := (eval oth lit_oth).

  Lemma string_leaf_seg term tv :
    is_string_leaf term tv = true ->
    exists m, seg m (enc_val (snd tv)) /\ contains_ci m term = true.
  Proof.
    destruct tv as [t v]. simpl. destruct t as [id| |]; try discriminate.
    destruct v as [| s | |]; try discriminate; intros H; apply andb_true_iff in H as [_ H].
    - exists []. split; [apply seg_nil|exact H].
    - exists s. split; [apply seg_tagged|exact H].
  Qed.

  (* Generic form: any field-name finder [F] that answers true whenever a type
     reached by the evaluator's walk has a matching field name (on frames
     satisfying [okf]) makes the compiled buffer filter sound. *)
  Variable F : bytes -> frame -> bool.
  Variable okf : frame -> Prop.
  Hypothesis F_sound : forall term (fr : frame) id t v t' v',
    okf fr -> In (id, t, v) fr -> In (t', v') (walk t v) ->
    search_type term t' = true -> F term fr = true.

  Fixpoint bf_eval_with (b : bf) (fr : frame) : bool :=
    match b with
    | BAnd x y => bf_eval_with x fr && bf_eval_with y fr
    | BOr x y => bf_eval_with x fr || bf_eval_with y fr
    | BFieldName p => F p fr
    | BStringCase p => contains_ci (frame_bytes fr) p
    | BString p => contains (frame_bytes fr) p
    end.

  Theorem generic_sound : forall e b (fr : frame),
    compile_bf e = Some b ->
    okf fr ->
    (exists id t v, In (id, t, v) fr /\ eval e t v = true) ->
    bf_eval_with b fr = true.
  Proof.
    induction e as [term | text l | path l | l path | a IHa c IHc | a IHa c IHc | a IHa | i];
      intros b fr C V [id [t [v [I E]]]]; simpl in C; unfold eval in E.
    - (* keyword search *)
      destruct (bf_string_case term) as [b1|] eqn:B; [|discriminate].
      apply bf_string_case_some in B. inversion C; subst. simpl.
      simpl in E. apply is_T3_b3 in E.
      assert (FN : forall t', (exists v', In (t', v') (walk t v)) ->
                              search_type term t' = true -> F term fr = true).
      { intros t' [v' W] S. eapply F_sound; eauto. }
      apply orb_true_iff in E as [E|E].
      + apply orb_true_iff. right. apply (FN t); [|exact E].
        destruct (walk_head t v) as [r Hr]. exists v. rewrite Hr. left. reflexivity.
      + apply existsb_exists in E as [[t' v'] [W E]]. simpl in E.
        apply orb_true_iff in E as [E|E].
        * apply orb_true_iff. right. apply (FN t'); [exists v'; exact W|exact E].
        * apply orb_true_iff. left.
          destruct (string_leaf_seg term (t', v') E) as [m [S Cm]]. simpl in S.
          eapply contains_ci_mono; [|exact Cm].
          eapply seg_trans; [exact S|]. eapply seg_trans; [eapply walk_seg; exact W|].
          eapply frame_seg; exact I.
    - (* search for a non-string literal *)
      destruct (N.eqb (lid l) ID_NET) eqn:Net; [discriminate|].
      destruct (bf_string_case text) as [b1|] eqn:B1; [|discriminate].
      destruct (bf_literal l) as [b2|] eqn:B2; [|discriminate].
      pose proof (bf_literal_not_opaque _ _ B2) as O.
      apply bf_string_case_some in B1. apply bf_literal_some in B2. inversion C; subst. simpl.
      simpl in E. rewrite Net, O in E. simpl in E.
      apply is_T3_b3 in E.
        apply existsb_exists in E as [[t' v'] [W E]]. unfold search_lit_leaf in E.
        destruct t' as [pid | |]; try discriminate.
        destruct (N.eqb pid ID_STRING).
        * apply orb_true_iff. left.
          assert (S : exists m, seg m (enc_val v') /\ contains_ci m text = true).
          { destruct v' as [| s | |]; try (exists []; split; [apply seg_nil|exact E]).
            exists s. split; [apply seg_tagged|exact E]. }
          destruct S as [m [S Cm]].
          eapply contains_ci_mono; [|exact Cm].
          eapply seg_trans; [exact S|]. eapply seg_trans; [eapply walk_seg; exact W|].
          eapply frame_seg; exact I.
        * apply orb_true_iff. right.
          apply const_eq_enc in E. apply contains_seg. rewrite <- E.
          eapply seg_trans; [eapply walk_seg; exact W|]. eapply frame_seg; exact I.
    - (* field == literal *)
      pose proof (bf_literal_not_opaque _ _ C) as O.
      apply bf_literal_some in C. subst. simpl.
      simpl in E. rewrite O in E.
      destruct (deref path t v) as [[t' v']|] eqn:D; [|discriminate].
      apply is_T3_b3 in E.
      apply const_eq_enc in E. apply contains_seg. rewrite <- E.
      eapply seg_trans; [eapply deref_seg; exact D|]. eapply frame_seg; exact I.
    - (* literal in field *)
      destruct (N.eqb (lid l) ID_NET); [discriminate|].
      pose proof (bf_literal_not_opaque _ _ C) as O.
      apply bf_literal_some in C. subst. simpl.
      simpl in E. rewrite O in E.
      destruct (deref path t v) as [[t' v']|] eqn:D; [|discriminate].
      apply is_T3_b3 in E.
      apply existsb_exists in E as [[t'' v''] [W E]]. simpl in E.
      apply coerce_eq_enc in E. apply contains_seg. rewrite <- E.
      eapply seg_trans; [eapply walk_seg; exact W|].
      eapply seg_trans; [eapply deref_seg; exact D|]. eapply frame_seg; exact I.
    - (* and *)
      simpl in E.
      assert (Ea : eval a t v = true /\ eval c t v = true).
      { unfold eval. destruct (eval3 a t v); try discriminate. split; [reflexivity|exact E]. }
      destruct Ea as [Ea Ec].
      destruct (compile_bf a) as [ba|] eqn:Ca; destruct (compile_bf c) as [bc|] eqn:Cc;
        inversion C; subst; simpl.
      + rewrite (IHa ba fr eq_refl V), (IHc bc fr eq_refl V); [reflexivity| |]; eauto 6.
      + apply (IHa b fr eq_refl V). eauto 6.
      + apply (IHc b fr eq_refl V). eauto 6.
    - (* or *)
      destruct (compile_bf a) as [ba|] eqn:Ca; [|discriminate].
      destruct (compile_bf c) as [bc|] eqn:Cc; [|discriminate].
      inversion C; subst. simpl. simpl in E.
      apply orb_true_iff.
      destruct (eval3 a t v) eqn:Ea.
      + left. apply (IHa ba fr eq_refl V). exists id, t, v. split; [exact I|].
        unfold eval. rewrite Ea. reflexivity.
      + right. apply (IHc bc fr eq_refl V). exists id, t, v. split; [exact I|exact E].
      + right. apply (IHc bc fr eq_refl V). exists id, t, v. split; [exact I|exact E].
    - discriminate.
    - discriminate.
  Qed.

End Sound.

Lemma bf_eval_with_fnf b fr : bf_eval_with fnf_find b fr = bf_eval b fr.
Proof. induction b; simpl; congruence. Qed.

Lemma fnf_find_sound_visible : forall term (fr : frame) id t v t' v',
  frame_visible fr -> In (id, t, v) fr -> In (t', v') (walk t v) ->
  search_type term t' = true -> fnf_find term fr = true.
Proof.
  intros term fr id t v t' v' V I W S.
  assert (Vt : visible t = true).
  { unfold frame_visible in V. rewrite Forall_forall in V. apply (V (id, t, v)). exact I. }
  unfold fnf_find. apply existsb_exists. exists (id, t, v).
  split; [exact I|]. destruct t as [pid | fs | et]; try reflexivity.
  eapply walk_search_type; eauto.
Qed.

(* The proposed repair of FieldNameFinder.Find: also answer true when the record
   type hides a record type below an array (which FieldNameIter cannot see). *)
Definition fnf_find_fixed (p : bytes) (fr : frame) : bool :=
  existsb (fun '(_, t, _) =>
             match t with
             | TRec _ => search_type p t || negb (visible t)
             | _ => true
             end) fr.

Lemma fnf_find_fixed_sound : forall term (fr : frame) id t v t' v',
  True -> In (id, t, v) fr -> In (t', v') (walk t v) ->
  search_type term t' = true -> fnf_find_fixed term fr = true.
Proof.
  intros term fr id t v t' v' _ I W S.
  unfold fnf_find_fixed. apply existsb_exists. exists (id, t, v).
  split; [exact I|]. destruct t as [pid | fs | et]; try reflexivity.
  destruct (visible (TRec fs)) eqn:Vt; [|apply orb_true_r].
  apply orb_true_iff. left. eapply walk_search_type; eauto.
Qed.

Section Sound2.
  Variable oth : nat -> ty -> val -> tv3.
  Variable lit_oth : expr -> ty -> val -> tv3.
  Notation eval := (eval oth lit_oth).

  (* the buffer filter accepts every frame that holds a value the filter accepts,
     provided the frame's record types hide no record type below an array *)
  Theorem bufferfilter_sound_partial : forall e b (fr : frame),
    compile_bf e = Some b ->
    frame_visible fr ->
    (exists id t v, In (id, t, v) fr /\ eval e t v = true) ->
    bf_eval b fr = true.
  Proof.
    intros e b fr C V H. rewrite <- bf_eval_with_fnf.
    eapply (generic_sound oth lit_oth fnf_find frame_visible fnf_find_sound_visible); eauto.
  Qed.

  (* with the repaired finder the statement holds at full strength *)
  Theorem bufferfilter_sound_with_fix : forall e b (fr : frame),
    compile_bf e = Some b ->
    (exists id t v, In (id, t, v) fr /\ eval e t v = true) ->
    bf_eval_with fnf_find_fixed b fr = true.
  Proof.
    intros e b fr C H.
    eapply (generic_sound oth lit_oth fnf_find_fixed (fun _ => True) fnf_find_fixed_sound); eauto.
  Qed.

  Lemma filter_none {A} (f : A -> bool) l : (forall x, In x l -> f x = false) -> filter f l = [].
  Proof.
    induction l as [|x l IH]; intros H; simpl; [reflexivity|].
    rewrite (H x (or_introl eq_refl)). apply IH. intros y Hy. apply H. right. exact Hy.
  Qed.

  Lemma scan_frame_is_filter e fr :
    frame_visible fr -> scan_frame oth lit_oth e fr = filter (keep oth lit_oth e) (frame_vals fr).
  Proof.
    intros V. unfold scan_frame, gate.
    destruct (compile_bf e) as [b|] eqn:C; [|reflexivity].
    destruct (bf_eval b fr) eqn:B; [reflexivity|].
    symmetry. apply filter_none. intros [t v] H.
    unfold frame_vals in H. apply in_map_iff in H as [[[id t'] v'] [Eq I]]. inversion Eq; subst.
    unfold keep. simpl. destruct (eval e t v) eqn:E; [|reflexivity].
    rewrite (bufferfilter_sound_partial e b fr C V) in B; [discriminate|].
    exists id, t, v. split; assumption.
  Qed.

  Lemma filter_flat_map {A B} (f : B -> bool) (g : A -> list B) l :
    filter f (flat_map g l) = flat_map (fun x => filter f (g x)) l.
  Proof.
    induction l as [|x l IH]; simpl; [reflexivity|].
    rewrite filter_app. rewrite IH. reflexivity.
  Qed.

  (* per-frame gate + per-value evaluator = the evaluator alone, for any split
     of the stream into frames *)
  Theorem scan_is_filter_partial : forall e frs,
    Forall frame_visible frs ->
    scan oth lit_oth e frs = spec oth lit_oth e frs.
  Proof.
    intros e frs V. unfold scan, spec. rewrite filter_flat_map.
    induction V as [|fr frs Hf Hfs IH]; simpl; [reflexivity|].
    rewrite scan_frame_is_filter by exact Hf. rewrite IH. reflexivity.
  Qed.

  (* a buffer filter never adds values, whatever the frames *)
  Theorem scan_subset_spec : forall e frs x,
    In x (scan oth lit_oth e frs) -> In x (spec oth lit_oth e frs).
  Proof.
    intros e frs x H. unfold scan in H. apply in_flat_map in H as [fr [Hfr Hx]].
    unfold spec. apply filter_In. unfold scan_frame in Hx.
    destruct (gate e fr); [|contradiction].
    apply filter_In in Hx as [Hx Kx]. split; [|exact Kx].
    apply in_flat_map. exists fr. split; assumption.
  Qed.
End Sound2.

(* ---------------------------------------------------------------- the general statement is false *)

Definition cex_term : bytes := hex "666f6f".           (* foo *)
Definition cex_type : ty := TRec [(hex "61", TArr (TRec [(hex "666f6f", TPrim 9)]))].
Definition cex_val : val := VRec [VArr [VRec [VPrim (hex "02")]]].   (* {a:[{foo:1}]} *)
Definition cex_frame : frame := [(32%N, cex_type, cex_val)].

(* `search foo` over {a:[{foo:1}]}: the evaluator's walk reaches the record
   type below the array and matches the field name; the field-name finder only
   looks at the dotted names of the top-level type, so the frame is dropped. *)
Theorem bufferfilter_refuted :
  exists e b (fr : frame),
    compile_bf e = Some b /\
    (exists id t v, In (id, t, v) fr /\ forall oth lit_oth, eval oth lit_oth e t v = true) /\
    bf_eval b fr = false.
Proof.
  exists (ESearchStr cex_term), (BOr (BStringCase cex_term) (BFieldName cex_term)), cex_frame.
  split; [reflexivity|]. split.
  - exists 32%N, cex_type, cex_val. split; [left; reflexivity|]. intros. vm_compute. reflexivity.
  - vm_compute. reflexivity.
Qed.

Theorem scan_refuted :
  exists e (frs : list frame), forall oth lit_oth,
    scan oth lit_oth e frs <> spec oth lit_oth e frs.
Proof.
  exists (ESearchStr cex_term), [cex_frame]. intros oth lit_oth. vm_compute. discriminate.
Qed.

(* non-vacuity of the partial theorems: a visible frame, a filter with a buffer
   filter, and a value it keeps *)
Example sound_nonvacuous :
  let fr : frame := [(30%N, TRec [(hex "6e", TRec [(hex "666f6f", TPrim 25)])], VRec [VRec [VPrim (hex "626172")]])] in
  compile_bf (EOr (ESearchStr cex_term) (EEq [hex "6e"; hex "666f6f"] {| lid := 25; lbody := Some (hex "626172") |})) <> None /\
  frame_visible fr /\
  scan (fun _ _ _ => F3) (fun _ _ _ => F3) (ESearchStr cex_term) [fr] = frame_vals fr.
Proof.
  simpl. split; [discriminate|]. split.
  - constructor; [reflexivity|constructor].
  - vm_compute. reflexivity.
Qed.
