(* Proofs for C18 (error-flow skeletons). *)
From ZV Require Import Base.Prelude Model.Writer.
Local Open Scope nat_scope.

(* ------------------------------------------------------------------ unfolding *)

Lemma exec_rep_S e a n s :
  exec e (Rep (S n) a) s =
  let '(r, s1) := exec e a s in
  match r with Cont => exec e (Rep n a) s1 | _ => (r, s1) end.
Proof. reflexivity. Qed.

Lemma exec_rep_0 e a s : exec e (Rep 0 a) s = (Cont, s).
Proof. reflexivity. Qed.

(* what one logical write can do to the flags *)
Lemma do_write_cases e s ok s' :
  do_write e s = (ok, s') ->
  (ok = true /\ s_faulted s' = s_faulted s /\ s_berr s' = s_berr s /\ e_buf e && s_berr s = false) \/
  (ok = false /\ s_faulted s' = true /\ s_berr s' = e_buf e) \/
  (ok = false /\ e_buf e = true /\ s_berr s = true /\ s_faulted s' = s_faulted s /\ s_berr s' = true).
Proof.
  unfold do_write. intros H.
  destruct (e_buf e && s_berr s) eqn:B.
  - apply andb_true_iff in B as [B1 B2].
    inversion H; subst; simpl. right; right. repeat split; auto.
  - destruct (sink_calls (e_fault e) (if e_buf e then nth (s_lw s) (e_spill e) 1 else 1) (s_calls s)) as [c failed].
    destruct failed; inversion H; subst; simpl.
    + right; left. repeat split; auto.
    + left. repeat split; auto.
Qed.


(* ------------------------------------------------------------------ no false alarm *)

(* bufio's sticky error is only ever set by a failed sink call *)
Definition inv_berr (s : st) : Prop := s_berr s = true -> s_faulted s = true.

Lemma exec_sound e k : forall s r s',
  inv_berr s -> exec e k s = (r, s') ->
  inv_berr s' /\ (s_faulted s = true -> s_faulted s' = true) /\ (r = RetErr -> s_faulted s' = true).
Proof.
  unfold inv_berr.
  induction k as [| | | |a IHa b IHb|n a IHa|a IHa|a IHa|a IHa|a IHa b IHb|a IHa|]; intros s r s' I H; simpl in H.
  - inversion H; subst. repeat split; auto; discriminate.
  - destruct (do_write e s) as [ok s1] eqn:D. inversion H; subst.
    apply do_write_cases in D as [(O & F & B & NB) | [(O & F & B) | (O & Bf & B0 & F & B)]]; subst; simpl.
    + rewrite F, B. repeat split; auto; discriminate.
    + repeat split; auto.
    + rewrite F. repeat split; auto.
  - destruct (do_write e s) as [ok s1] eqn:D. inversion H; subst.
    apply do_write_cases in D as [(O & F & B & NB) | [(O & F & B) | (O & Bf & B0 & F & B)]]; subst.
    + rewrite F, B. repeat split; auto; discriminate.
    + repeat split; auto; discriminate.
    + rewrite F. repeat split; auto; discriminate.
  - destruct (close_fails (e_fault e)); inversion H; subst; simpl; repeat split; auto; discriminate.
  - destruct (exec e a s) as [r1 s1] eqn:Ea.
    destruct (IHa _ _ _ I Ea) as (I1 & M1 & R1).
    destruct r1.
    + destruct (IHb _ _ _ I1 H) as (I2 & M2 & R2). repeat split; auto.
    + inversion H; subst. repeat split; auto.
    + inversion H; subst. repeat split; auto.
  - revert s r s' I H. induction n as [|n IHn]; intros s r s' I H.
    + inversion H; subst. repeat split; auto; discriminate.
    + change (exec e (Rep (S n) a) s = (r, s')) in H. rewrite exec_rep_S in H.
      destruct (exec e a s) as [r1 s1] eqn:Ea.
      destruct (IHa _ _ _ I Ea) as (I1 & M1 & R1).
      destruct r1.
      * destruct (IHn _ _ _ I1 H) as (I2 & M2 & R2). repeat split; auto.
      * inversion H; subst. repeat split; auto.
      * inversion H; subst. repeat split; auto.
  - destruct (exec e a s) as [r1 s1] eqn:Ea.
    destruct (IHa _ _ _ I Ea) as (I1 & M1 & R1).
    inversion H; subst. repeat split; auto. destruct r1; discriminate.
  - destruct (exec e a s) as [r1 s1] eqn:Ea.
    destruct (IHa _ _ _ I Ea) as (I1 & M1 & R1).
    inversion H; subst. repeat split; auto. destruct r1; try discriminate; auto.
  - destruct (exec e a s) as [r1 s1] eqn:Ea.
    destruct (IHa _ _ _ I Ea) as (I1 & M1 & R1).
    inversion H; subst. repeat split; auto; discriminate.
  - destruct (exec e a s) as [r1 s1] eqn:Ea.
    destruct (exec e b s1) as [r2 s2] eqn:Eb.
    destruct (IHa _ _ _ I Ea) as (I1 & M1 & R1).
    destruct (IHb _ _ _ I1 Eb) as (I2 & M2 & R2).
    inversion H; subst. repeat split; auto.
    destruct r1, r2; try discriminate; auto.
  - destruct (s_dirty s).
    + apply IHa; auto.
    + inversion H; subst. repeat split; auto; discriminate.
  - inversion H; subst; simpl. repeat split; auto; discriminate.
Qed.

Lemma run_ops_sound e : forall ops i s rep s',
  inv_berr s -> run_ops e ops i s = (rep, s') ->
  inv_berr s' /\ (s_faulted s = true -> s_faulted s' = true) /\ (rep <> None -> s_faulted s' = true).
Proof.
  induction ops as [|o r IH]; intros i s rep s' I H; simpl in H.
  - inversion H; subst. repeat split; auto; intros C; congruence.
  - destruct (exec e o s) as [x s1] eqn:E.
    destruct (exec_sound _ _ _ _ _ I E) as (I1 & M1 & R1).
    destruct x.
    + destruct (IH _ _ _ _ I1 H) as (I2 & M2 & R2). repeat split; auto.
    + inversion H; subst. repeat split; auto.
    + destruct (IH _ _ _ _ I1 H) as (I2 & M2 & R2). repeat split; auto.
Qed.

Lemma inv_berr_st0 : inv_berr st0.
Proof. unfold inv_berr; simpl; discriminate. Qed.

(* A run reports an error only if some sink call really failed. *)
Theorem no_false_alarm e ops close v s :
  run e ops close = (v, s) -> v <> 0 -> s_faulted s = true.
Proof.
  unfold run. intros H NZ.
  destruct (run_ops e ops 0 st0) as [rep s1] eqn:R.
  destruct (exec e close s1) as [x s2] eqn:X.
  destruct (run_ops_sound _ _ _ _ _ _ inv_berr_st0 R) as (I1 & _ & R1).
  destruct (exec_sound _ _ _ _ _ I1 X) as (_ & M2 & R2).
  inversion H; subst.
  destruct rep.
  - apply M2, R1. congruence.
  - destruct x; try congruence. auto.
Qed.

(* ------------------------------------------------------------------ checked skeletons report *)

Lemma exec_checked e k : forall s r s',
  err_checked k = true -> exec e k s = (r, s') ->
  r <> RetNil /\ (s_faulted s' = true -> s_faulted s = true \/ r = RetErr).
Proof.
  induction k as [| | | |a IHa b IHb|n a IHa|a IHa|a IHa|a IHa|a IHa b IHb|a IHa|]; intros s r s' C H; simpl in H, C;
    try discriminate.
  - inversion H; subst. split; [discriminate | auto].
  - destruct (do_write e s) as [ok s1] eqn:D. inversion H; subst.
    apply do_write_cases in D as [(O & F & B & NB) | [(O & F & B) | (O & Bf & B0 & F & B)]]; subst.
    + split; [discriminate | rewrite F; auto].
    + split; [discriminate | auto].
    + split; [discriminate | auto].
  - destruct (close_fails (e_fault e)); inversion H; subst; simpl; split; try discriminate; auto.
  - apply andb_true_iff in C as [Ca Cb].
    destruct (exec e a s) as [r1 s1] eqn:Ea.
    destruct (IHa _ _ _ Ca Ea) as (N1 & F1).
    destruct r1; try congruence.
    + destruct (IHb _ _ _ Cb H) as (N2 & F2). split; auto.
      intros F. destruct (F2 F) as [F'|]; auto. destruct (F1 F'); auto. discriminate.
    + inversion H; subst. split; auto.
  - revert s r s' H. induction n as [|n IHn]; intros s r s' H.
    + inversion H; subst. split; [discriminate | auto].
    + change (exec e (Rep (S n) a) s = (r, s')) in H. rewrite exec_rep_S in H.
      destruct (exec e a s) as [r1 s1] eqn:Ea.
      destruct (IHa _ _ _ C Ea) as (N1 & F1).
      destruct r1; try congruence.
      * destruct (IHn _ _ _ H) as (N2 & F2). split; auto.
        intros F. destruct (F2 F) as [F'|]; auto. destruct (F1 F'); auto. discriminate.
      * inversion H; subst. split; auto.
  - destruct (exec e a s) as [r1 s1] eqn:Ea.
    destruct (IHa _ _ _ C Ea) as (N1 & F1).
    inversion H; subst. destruct r1; try congruence; split; auto; discriminate.
  - apply andb_true_iff in C as [Ca Cb].
    destruct (exec e a s) as [r1 s1] eqn:Ea.
    destruct (exec e b s1) as [r2 s2] eqn:Eb.
    destruct (IHa _ _ _ Ca Ea) as (N1 & F1).
    destruct (IHb _ _ _ Cb Eb) as (N2 & F2).
    inversion H; subst. split.
    + destruct r1, r2; discriminate.
    + intros F. destruct (F2 F) as [F'|R2].
      * destruct (F1 F') as [|R1]; auto. subst. auto.
      * subst. destruct r1; auto.
  - destruct (s_dirty s).
    + apply IHa; auto.
    + inversion H; subst. split; [discriminate | auto].
  - inversion H; subst; simpl. split; [discriminate | auto].
Qed.

(* An operation is sound when, started before any fault, it returns an error
   whenever a sink call failed during it. *)
Definition op_sound (e : env) (k : skel) : Prop :=
  forall s r s', s_faulted s = false -> exec e k s = (r, s') ->
                 s_faulted s' = true -> r = RetErr.

Lemma checked_op_sound e k : err_checked k = true -> op_sound e k.
Proof.
  intros C s r s' F0 H F. destruct (exec_checked _ _ _ _ _ C H) as (_ & X).
  destruct (X F); congruence.
Qed.

Lemma run_ops_reports e : forall ops i s rep s',
  Forall (op_sound e) ops -> s_faulted s = false ->
  run_ops e ops i s = (rep, s') -> rep = None -> s_faulted s' = false.
Proof.
  induction ops as [|o r IH]; intros i s rep s' FA F0 H N; simpl in H.
  - inversion H; subst. auto.
  - inversion FA as [|? ? So Sr]; subst.
    destruct (exec e o s) as [x s1] eqn:E.
    destruct (s_faulted s1) eqn:F1.
    + rewrite (So _ _ _ F0 E F1) in H. inversion H.
    + destruct x.
      * eapply IH; eauto.
      * inversion H.
      * eapply IH; eauto.
Qed.

Theorem sound_ops_report e ops close v s :
  Forall (op_sound e) ops -> op_sound e close ->
  run e ops close = (v, s) -> s_faulted s = true -> v <> 0.
Proof.
  unfold run. intros FA SC H F.
  destruct (run_ops e ops 0 st0) as [rep s1] eqn:R.
  destruct (exec e close s1) as [x s2] eqn:X.
  inversion H; subst.
  destruct rep as [i|]; [discriminate|].
  assert (F1 : s_faulted s1 = false) by exact (run_ops_reports e ops 0 st0 None s1 FA eq_refl R eq_refl).
  rewrite (SC _ _ _ F1 X F). discriminate.
Qed.

(* The generic theorem: if every operation of a writer passes the checker then,
   for every sink behaviour (any failing call, any mode, buffered or not), a
   failed sink call is reported by some Write or by Close. *)
Theorem checked_reports e ops close v s :
  forallb err_checked ops = true -> err_checked close = true ->
  run e ops close = (v, s) -> s_faulted s = true -> v <> 0.
Proof.
  intros CO CC. apply sound_ops_report.
  - apply Forall_forall. intros o In. apply checked_op_sound.
    rewrite forallb_forall in CO. auto.
  - apply checked_op_sound; auto.
Qed.

(* ------------------------------------------------------------------ sticky buffers *)

(* Behind a bufio.Writer every failed sink call leaves the sticky error set *)
Definition inv_sticky (s : st) : Prop := s_faulted s = true -> s_berr s = true.

Lemma exec_sticky e k : forall s r s',
  e_buf e = true -> no_close k = true -> inv_sticky s -> exec e k s = (r, s') -> inv_sticky s'.
Proof.
  unfold inv_sticky.
  induction k as [| | | |a IHa b IHb|n a IHa|a IHa|a IHa|a IHa|a IHa b IHb|a IHa|]; intros s r s' B C I H; simpl in H, C;
    try discriminate.
  - inversion H; subst; auto.
  - destruct (do_write e s) as [ok s1] eqn:D. inversion H; subst.
    apply do_write_cases in D as [(O & F & Be & NB) | [(O & F & Be) | (O & Bf & B0 & F & Be)]]; subst.
    + rewrite F, Be; auto.
    + rewrite Be; auto.
    + auto.
  - destruct (do_write e s) as [ok s1] eqn:D. inversion H; subst.
    apply do_write_cases in D as [(O & F & Be & NB) | [(O & F & Be) | (O & Bf & B0 & F & Be)]]; subst.
    + rewrite F, Be; auto.
    + rewrite Be; auto.
    + auto.
  - apply andb_true_iff in C as [Ca Cb].
    destruct (exec e a s) as [r1 s1] eqn:Ea.
    pose proof (IHa _ _ _ B Ca I Ea) as I1.
    destruct r1; [exact (IHb _ _ _ B Cb I1 H) | inversion H; subst; auto | inversion H; subst; auto].
  - revert s r s' I H. induction n as [|n IHn]; intros s r s' I H.
    + inversion H; subst; auto.
    + change (exec e (Rep (S n) a) s = (r, s')) in H. rewrite exec_rep_S in H.
      destruct (exec e a s) as [r1 s1] eqn:Ea.
      pose proof (IHa _ _ _ B C I Ea) as I1.
      destruct r1; [exact (IHn _ _ _ I1 H) | inversion H; subst; auto | inversion H; subst; auto].
  - destruct (exec e a s) as [r1 s1] eqn:Ea. inversion H; subst. exact (IHa _ _ _ B C I Ea).
  - destruct (exec e a s) as [r1 s1] eqn:Ea. inversion H; subst. exact (IHa _ _ _ B C I Ea).
  - destruct (exec e a s) as [r1 s1] eqn:Ea. inversion H; subst. exact (IHa _ _ _ B C I Ea).
  - apply andb_true_iff in C as [Ca Cb].
    destruct (exec e a s) as [r1 s1] eqn:Ea.
    destruct (exec e b s1) as [r2 s2] eqn:Eb.
    inversion H; subst. exact (IHb _ _ _ B Cb (IHa _ _ _ B Ca I Ea) Eb).
  - destruct (s_dirty s); [exact (IHa _ _ _ B C I H) | inversion H; subst; auto].
  - inversion H; subst; simpl; auto.
Qed.

Lemma run_ops_sticky e : forall ops i s rep s',
  e_buf e = true -> forallb no_close ops = true -> inv_sticky s ->
  run_ops e ops i s = (rep, s') -> inv_sticky s'.
Proof.
  induction ops as [|o r IH]; intros i s rep s' B C I H; simpl in H, C.
  - inversion H; subst; auto.
  - apply andb_true_iff in C as [Co Cr].
    destruct (exec e o s) as [x s1] eqn:E.
    pose proof (exec_sticky _ _ _ _ _ B Co I E) as I1.
    destruct x; [exact (IH _ _ _ _ B Cr I1 H) | inversion H; subst; auto | exact (IH _ _ _ _ B Cr I1 H)].
Qed.

(* the final flush-and-close of pkg/bufwriter reports whatever was deferred *)
Lemma bufwriter_close_reports e s r s' :
  e_buf e = true -> inv_sticky s ->
  exec e (sink_close true) s = (r, s') -> s_faulted s' = true -> r = RetErr.
Proof.
  intros B I H F. simpl in H.
  destruct (do_write e s) as [ok s1] eqn:D.
  apply do_write_cases in D as [(O & F1 & Be & NB) | [(O & F1 & Be) | (O & Bf & B0 & F1 & Be)]]; subst.
  - destruct (close_fails (e_fault e)); inversion H; subst; auto.
    rewrite F1 in F. specialize (I F).
    (* a sticky error was pending: the write would have failed *)
    rewrite B, I in NB. discriminate.
  - inversion H; auto.
  - inversion H; auto.
Qed.

Lemma both_bufclose_reports e a s x s' :
  e_buf e = true -> no_close a = true -> inv_sticky s ->
  exec e (Both a (sink_close true)) s = (x, s') -> s_faulted s' = true -> x = RetErr.
Proof.
  intros B C I H F.
  change (exec e (Both a (sink_close true)) s) with
    (let '(r1, s1) := exec e a s in
     let '(r2, s2) := exec e (sink_close true) s1 in
     (match r1, r2 with RetErr, _ => RetErr | _, RetErr => RetErr | _, _ => Cont end, s2)) in H.
  destruct (exec e a s) as [r1 s1] eqn:Ea.
  destruct (exec e (sink_close true) s1) as [r2 s2] eqn:Eb.
  inversion H; subst.
  pose proof (exec_sticky _ _ _ _ _ B C I Ea) as I1.
  rewrite (bufwriter_close_reports _ _ _ _ B I1 Eb F).
  destruct r1; reflexivity.
Qed.

Lemma inv_sticky_st0 : inv_sticky st0.
Proof. unfold inv_sticky; simpl; discriminate. Qed.

(* Mechanism "buffered sinks surface deferred errors on Close": whatever the
   writer does with the errors of its writes (checked, dropped, swallowed), on
   top of pkg/bufwriter a failed sink call is reported at the latest by Close,
   provided Close ends with bufwriter's flush-and-close. *)
Theorem buffered_reports e ops a v s :
  e_buf e = true -> forallb no_close ops = true -> no_close a = true ->
  run e ops (Both a (sink_close true)) = (v, s) -> s_faulted s = true -> v <> 0.
Proof.
  unfold run. intros B CO CA H F.
  destruct (run_ops e ops 0 st0) as [rep s1] eqn:R.
  destruct (exec e (Both a (sink_close true)) s1) as [x s2] eqn:X.
  inversion H; subst.
  destruct rep as [i|]; [discriminate|].
  pose proof (run_ops_sticky _ _ _ _ _ _ B CO inv_sticky_st0 R) as I1.
  rewrite (both_bufclose_reports _ _ _ _ _ B CA I1 X F). discriminate.
Qed.

Corollary buffered_reports_plain e ops v s :
  e_buf e = true -> forallb no_close ops = true ->
  run e ops (sink_close true) = (v, s) -> s_faulted s = true -> v <> 0.
Proof.
  unfold run. intros B CO H F.
  destruct (run_ops e ops 0 st0) as [rep s1] eqn:R.
  destruct (exec e (sink_close true) s1) as [x s2] eqn:X.
  inversion H; subst.
  destruct rep as [i|]; [discriminate|].
  pose proof (run_ops_sticky _ _ _ _ _ _ B CO inv_sticky_st0 R) as I1.
  rewrite (bufwriter_close_reports _ _ _ _ B I1 X F). discriminate.
Qed.

(* ------------------------------------------------------------------ the writers *)

(* every transcribed writer except jsonio checks each of its writes *)
Definition sound_kind (k : wkind) : bool :=
  match k with KJson => false | _ => true end.

Lemma write_skel_checked k c sk :
  sound_kind k = true -> write_skel k c = Some sk -> err_checked sk = true.
Proof.
  destruct k; simpl; try discriminate; intros _ H;
    try (inversion H; subst; reflexivity);
    repeat (destruct c as [|c]; simpl in H; try discriminate; try (inversion H; subst; reflexivity)).
Qed.

Lemma write_skels_checked k : forall cs ws,
  sound_kind k = true -> write_skels k cs = Some ws -> forallb err_checked ws = true.
Proof.
  induction cs as [|c r IH]; intros ws K H; simpl in H.
  - inversion H; subst. reflexivity.
  - destruct (write_skel k c) as [sk|] eqn:E; try discriminate.
    destruct (write_skels k r) as [l|] eqn:E2; try discriminate.
    inversion H; subst. simpl. rewrite (write_skel_checked _ _ _ K E). simpl. apply IH; auto.
Qed.

Lemma close_skel_checked k b c sk :
  sound_kind k = true -> close_skel k b c = Some sk -> err_checked sk = true.
Proof.
  destruct k; simpl; try discriminate; intros _ H; destruct b;
    try (inversion H; subst; reflexivity);
    try (destruct c as [|c]; simpl in H; try discriminate); inversion H; subst; reflexivity.
Qed.

(* zson, zjson, text, zeek, lake, csv/tsv, table and vng writers, directly on
   the sink or on pkg/bufwriter, for any number of values and any call pattern
   the transcribed code can produce: every failed sink call is reported. *)
Theorem transcribed_writers_report k buffered cs nclose spill f ws cl v s :
  sound_kind k = true ->
  write_skels k cs = Some ws -> close_skel k buffered nclose = Some cl ->
  run (static_env k buffered spill f) ws cl = (v, s) -> s_faulted s = true -> v <> 0.
Proof.
  intros K W C. apply checked_reports.
  - eapply write_skels_checked; eauto.
  - eapply close_skel_checked; eauto.
Qed.

(* non-vacuity: the transcription produces skeletons and faults do occur *)
Example transcribed_nonvacuous :
  exists ws cl, write_skels KCsv [0; 0] = Some ws /\ close_skel KCsv false 1 = Some cl /\
    let '(v, s) := run (static_env KCsv false [] (mkFault FOneShot 1)) ws cl in v = 3 /\ s_faulted s = true.
Proof.
  exists [Rep 0 W; Rep 0 W], (Both (Rep 1 W) CloseSink).
  split; [reflexivity | split; [reflexivity | vm_compute; split; reflexivity]].
Qed.

(* jsonio: the errors of the buffered writes are dropped but bufio's error is
   sticky and every Write ends with a checked Flush. *)
Lemma rep_wi_cont e : forall n s, fst (exec e (Rep n Wi) s) = Cont.
Proof.
  induction n as [|n IH]; intros s.
  - reflexivity.
  - rewrite exec_rep_S. simpl. destruct (do_write e s) as [ok s1]. apply IH.
Qed.

Lemma json_write_sound e c : e_buf e = true -> op_sound e (Seq (Rep c Wi) W).
Proof.
  intros B s r s' F0 H F.
  change (exec e (Seq (Rep c Wi) W) s) with
    (let '(r, s1) := exec e (Rep c Wi) s in
     match r with Cont => exec e W s1 | _ => (r, s1) end) in H.
  pose proof (rep_wi_cont e c s) as RC.
  destruct (exec e (Rep c Wi) s) as [r1 s1] eqn:E1. simpl in RC. subst r1.
  assert (I0 : inv_sticky s) by (unfold inv_sticky; congruence).
  pose proof (exec_sticky e (Rep c Wi) _ _ _ B eq_refl I0 E1) as I1.
  simpl in H. destruct (do_write e s1) as [ok s2] eqn:D. inversion H; subst.
  apply do_write_cases in D as [(O & F1 & Be & NB) | [(O & F1 & Be) | (O & Bf & B0 & F1 & Be)]]; subst; auto.
  rewrite F1 in F. specialize (I1 F). rewrite B, I1 in NB. discriminate.
Qed.

Theorem json_writer_reports cs nclose f ws cl v s :
  write_skels KJson cs = Some ws -> close_skel KJson false nclose = Some cl ->
  run (static_env KJson false [] f) ws cl = (v, s) -> s_faulted s = true -> v <> 0.
Proof.
  intros W C. apply sound_ops_report.
  - revert ws W. induction cs as [|c r IH]; intros ws W; simpl in W.
    + inversion W; subst. constructor.
    + destruct c as [|c]; simpl in W; try discriminate.
      destruct (write_skels KJson r) as [l|] eqn:E2; try discriminate.
      inversion W; subst. constructor.
      * apply json_write_sound. reflexivity.
      * apply IH; reflexivity.
  - destruct nclose; simpl in C; try discriminate. inversion C; subst.
    apply checked_op_sound. reflexivity.
Qed.

(* The checker's conditions matter (regression witnesses, the shapes of the
   three defects repaired in /repo): a swallowed error (old zngio.flush), a
   final flush whose error is not consulted (old csvio.Close) and a discarded
   flush result (old tableio.Write) each lose a failed sink call. *)
Example swallowed_error_unsound :
  let '(v, s) := run (mkEnv false [] (mkFault FOneShot 1))
                     [Scope (Swallow (Seq W W))] (Both (IfDirty (Seq W Clean)) CloseSink) in
  v = 0 /\ s_faulted s = true.
Proof. vm_compute. split; reflexivity. Qed.

Example unconsulted_flush_unsound :
  let '(v, s) := run (mkEnv true [] (mkFault FOneShot 1))
                     [Rep 0 W; Rep 0 W] (Seq (Ignore (Rep 1 W)) CloseSink) in
  v = 0 /\ s_faulted s = true.
Proof. vm_compute. split; reflexivity. Qed.

Example discarded_flush_unsound :
  let '(v, s) := run (mkEnv false [] (mkFault FOneShot 4))
                     [Ignore (Rep 0 W); Ignore (Rep 0 W); Ignore (Rep 9 W); Ignore (Rep 0 W)]
                     (Both (Rep 9 W) CloseSink) in
  v = 0 /\ s_faulted s = true.
Proof. vm_compute. split; reflexivity. Qed.

(* ------------------------------------------------------------------ zngio *)

Lemma zblock_checked b : err_checked (zblock b) = true.
Proof. unfold zblock. destruct (N.eqb b 0); reflexivity. Qed.

Lemma zflush_checked tb vb : err_checked (zflush tb vb) = true.
Proof. unfold zflush. simpl. rewrite !zblock_checked. reflexivity. Qed.

Lemma zclose_checked buffered tb vb : err_checked (zclose buffered tb vb) = true.
Proof.
  unfold zclose. simpl. rewrite !zblock_checked. destruct buffered; reflexivity.
Qed.

Lemma zwrite_reports e thresh sz tb vb s r p s1 :
  zwrite e thresh sz tb vb s = (r, p, s1) -> s_faulted s = false ->
  s_faulted s1 = true -> r = RetErr.
Proof.
  unfold zwrite. intros H F0 F1.
  destruct ((thresh <=? vb + snd sz)%N || (thresh <=? tb + fst sz)%N).
  - destruct (exec e (zflush (tb + fst sz) (vb + snd sz)) s) as [x s'] eqn:E.
    destruct (exec_checked _ _ _ _ _ (zflush_checked _ _) E) as (NN & FF).
    destruct x; inversion H; subst; auto.
    + destruct (FF F1); congruence.
    + congruence.
  - inversion H; subst. congruence.
Qed.

Lemma zwrites_reports e thresh : forall szs i tb vb s rep p s1 l,
  zwrites e thresh szs i tb vb s = (rep, p, s1, l) -> s_faulted s = false ->
  rep = None -> s_faulted s1 = false.
Proof.
  induction szs as [|sz r IH]; intros i tb vb s rep p s1 l H F0 N; simpl in H.
  - inversion H; subst. auto.
  - destruct (zwrite e thresh sz tb vb s) as [[x [tb1 vb1]] s'] eqn:Z.
    destruct (s_faulted s') eqn:F'.
    + rewrite (zwrite_reports _ _ _ _ _ _ _ _ _ Z F0 F') in H. inversion H; subst. discriminate.
    + destruct (zwrites e thresh r (S i) tb1 vb1 s') as [[[rep' p'] s2] l'] eqn:ZS.
      destruct x; inversion H; subst; try discriminate; eapply IH; eauto.
Qed.

(* zngio.Writer: every failed sink call is reported, for all value sizes,
   frame thresholds, faults, directly on the sink or on pkg/bufwriter. *)
Theorem zng_reports e thresh szs v s l n :
  zrun e thresh szs = (v, s, l, n) -> s_faulted s = true -> v <> 0.
Proof.
  unfold zrun. intros H F.
  destruct (zwrites e thresh szs 0 0%N 0%N st0) as [[[rep [tb vb]] s1] l'] eqn:ZS.
  destruct (exec e (zclose (e_buf e) tb vb) s1) as [x s2] eqn:X.
  inversion H; subst.
  destruct rep as [i|]; [discriminate|].
  pose proof (zwrites_reports _ _ _ _ _ _ _ _ _ _ _ ZS eq_refl eq_refl) as F1.
  destruct (exec_checked _ _ _ _ _ (zclose_checked _ _ _) X) as (_ & FF).
  destruct (FF F) as [C|C]; [congruence|]. rewrite C. discriminate.
Qed.

(* non-vacuity and the two reporting sites: a failed frame write is reported by
   the Write that flushes; a failed end-of-stream marker by Close *)
Example zng_reports_at_write :
  let '(v, s, _, _) := zrun (mkEnv false [] (mkFault FOneShot 1)) 1%N [(5, 3)%N; (0, 4)%N] in
  v = 1 /\ s_faulted s = true.
Proof. vm_compute. split; reflexivity. Qed.

Example zng_reports_at_close :
  let '(v, s, _, _) := zrun (mkEnv false [] (mkFault FOneShot 7)) 1%N [(5, 3)%N; (0, 4)%N] in
  v = 3 /\ s_faulted s = true.
Proof. vm_compute. split; reflexivity. Qed.

(* ------------------------------------------------------------------ no fault, no error *)

Lemma sink_calls_none f : f_mode f = FNone -> forall n c, snd (sink_calls f n c) = false.
Proof.
  intros M. induction n as [|n IH]; intros c; simpl.
  - reflexivity.
  - unfold call_fails. rewrite M. apply IH.
Qed.

Lemma do_write_none e s ok s' :
  f_mode (e_fault e) = FNone -> do_write e s = (ok, s') -> s_faulted s' = s_faulted s.
Proof.
  intros M. unfold do_write.
  destruct (e_buf e && s_berr s).
  - intros H; inversion H; subst; reflexivity.
  - pose proof (sink_calls_none _ M (if e_buf e then nth (s_lw s) (e_spill e) 1 else 1) (s_calls s)) as N.
    destruct (sink_calls (e_fault e) (if e_buf e then nth (s_lw s) (e_spill e) 1 else 1) (s_calls s)) as [c failed].
    simpl in N. subst failed. intros H; inversion H; subst; reflexivity.
Qed.

Lemma exec_none e k : f_mode (e_fault e) = FNone -> forall s r s',
  exec e k s = (r, s') -> s_faulted s' = s_faulted s.
Proof.
  intros M.
  induction k as [| | | |a IHa b IHb|n a IHa|a IHa|a IHa|a IHa|a IHa b IHb|a IHa|]; intros s r s' H; simpl in H.
  - inversion H; subst; reflexivity.
  - destruct (do_write e s) as [ok s1] eqn:D. inversion H; subst. eapply do_write_none; eauto.
  - destruct (do_write e s) as [ok s1] eqn:D. inversion H; subst. eapply do_write_none; eauto.
  - unfold close_fails in H. rewrite M in H. inversion H; subst; reflexivity.
  - destruct (exec e a s) as [r1 s1] eqn:Ea. pose proof (IHa _ _ _ Ea) as E1.
    destruct r1; [rewrite (IHb _ _ _ H); auto | inversion H; subst; auto | inversion H; subst; auto].
  - revert s r s' H. induction n as [|n IHn]; intros s r s' H.
    + inversion H; subst; reflexivity.
    + change (exec e (Rep (S n) a) s = (r, s')) in H. rewrite exec_rep_S in H.
      destruct (exec e a s) as [r1 s1] eqn:Ea. pose proof (IHa _ _ _ Ea) as E1.
      destruct r1; [rewrite (IHn _ _ _ H); auto | inversion H; subst; auto | inversion H; subst; auto].
  - destruct (exec e a s) as [r1 s1] eqn:Ea. inversion H; subst. exact (IHa _ _ _ Ea).
  - destruct (exec e a s) as [r1 s1] eqn:Ea. inversion H; subst. exact (IHa _ _ _ Ea).
  - destruct (exec e a s) as [r1 s1] eqn:Ea. inversion H; subst. exact (IHa _ _ _ Ea).
  - destruct (exec e a s) as [r1 s1] eqn:Ea.
    destruct (exec e b s1) as [r2 s2] eqn:Eb.
    inversion H; subst. rewrite (IHb _ _ _ Eb). exact (IHa _ _ _ Ea).
  - destruct (s_dirty s); [exact (IHa _ _ _ H) | inversion H; subst; reflexivity].
  - inversion H; subst; reflexivity.
Qed.

Lemma run_ops_none e : f_mode (e_fault e) = FNone -> forall ops i s rep s',
  run_ops e ops i s = (rep, s') -> s_faulted s' = s_faulted s.
Proof.
  intros M. induction ops as [|o r IH]; intros i s rep s' H; simpl in H.
  - inversion H; subst; reflexivity.
  - destruct (exec e o s) as [x s1] eqn:E. pose proof (exec_none _ _ M _ _ _ E) as E1.
    destruct x; [rewrite (IH _ _ _ _ H); auto | inversion H; subst; auto | rewrite (IH _ _ _ _ H); auto].
Qed.

(* With a sink that never fails no writer skeleton reports an error. *)
Theorem fault_free_silent e ops close v s :
  f_mode (e_fault e) = FNone -> run e ops close = (v, s) -> v = 0 /\ s_faulted s = false.
Proof.
  intros M H.
  assert (F : s_faulted s = false).
  { unfold run in H.
    destruct (run_ops e ops 0 st0) as [rep s1] eqn:R.
    destruct (exec e close s1) as [x s2] eqn:X.
    inversion H; subst.
    rewrite (exec_none _ _ M _ _ _ X), (run_ops_none _ M _ _ _ _ _ R). reflexivity. }
  split; auto.
  destruct v; auto.
  pose proof (no_false_alarm _ _ _ _ _ H (Nat.neq_succ_0 v)). congruence.
Qed.
