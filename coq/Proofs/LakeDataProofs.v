From Coq Require Import Sorting.Sorted Sorting.Permutation.
From ZV Require Import Base.Prelude Model.Pruner Proofs.PrunerProofs Model.LakeData.
Local Open Scope Z_scope.

(* ------------------------------------------------------------------ *)
(* The import order is a total preorder. *)

Lemma bcmpZ_antisym a b : bcmpZ b a = - bcmpZ a b.
Proof. unfold bcmpZ. rewrite (bytes_cmp_antisym a b). destruct (bytes_cmp a b); reflexivity. Qed.

Lemma bcmpZ_le_trans a b c : bcmpZ a b <= 0 -> bcmpZ b c <= 0 -> bcmpZ a c <= 0.
Proof.
  unfold bcmpZ. intros H1 H2.
  assert (N1 : bytes_cmp a b <> Gt) by (destruct (bytes_cmp a b); simpl in *; [discriminate|discriminate|lia]).
  assert (N2 : bytes_cmp b c <> Gt) by (destruct (bytes_cmp b c); simpl in *; [discriminate|discriminate|lia]).
  pose proof (bytes_cmp_le_trans _ _ _ N1 N2) as N3.
  destruct (bytes_cmp a c); simpl; try lia. congruence.
Qed.

Lemma cmpk_eq_trans a b c : cmpk a b = 0 -> cmpk b c = 0 -> cmpk a c = 0.
Proof.
  intros H1 H2.
  assert (cmpk a c <= 0) by (apply (cmpk_le_trans a b c); lia).
  assert (cmpk c a <= 0).
  { apply (cmpk_le_trans c b a); rewrite cmpk_antisym; lia. }
  rewrite cmpk_antisym in H0. lia.
Qed.

Lemma icmp_desc a b : icmp true a b = icmp false b a.
Proof. reflexivity. Qed.

Lemma ile_desc a b : ile true a b = ile false b a.
Proof. reflexivity. Qed.

Lemma icmp_asc_antisym a b : icmp false b a = - icmp false a b.
Proof.
  unfold icmp. rewrite (cmpk_antisym (vkey a) (vkey b)).
  destruct (Z.eqb_spec (cmpk (vkey a) (vkey b)) 0) as [E|E].
  - rewrite E. simpl. apply bcmpZ_antisym.
  - destruct (Z.eqb_spec (- cmpk (vkey a) (vkey b)) 0); [lia | reflexivity].
Qed.

Lemma icmp_asc_le_trans a b c : icmp false a b <= 0 -> icmp false b c <= 0 -> icmp false a c <= 0.
Proof.
  unfold icmp. intros H1 H2.
  destruct (Z.eqb_spec (cmpk (vkey a) (vkey b)) 0) as [E1|E1];
  destruct (Z.eqb_spec (cmpk (vkey b) (vkey c)) 0) as [E2|E2].
  - rewrite (cmpk_eq_trans _ _ _ E1 E2). simpl. eapply bcmpZ_le_trans; eauto.
  - assert (L : cmpk (vkey a) (vkey c) < 0) by (apply (cmpk_le_lt_trans _ (vkey b)); lia).
    destruct (Z.eqb_spec (cmpk (vkey a) (vkey c)) 0); lia.
  - assert (L : cmpk (vkey a) (vkey c) < 0) by (apply (cmpk_lt_le_trans _ (vkey b)); lia).
    destruct (Z.eqb_spec (cmpk (vkey a) (vkey c)) 0); lia.
  - assert (L : cmpk (vkey a) (vkey c) < 0) by (apply (cmpk_lt_le_trans _ (vkey b)); lia).
    destruct (Z.eqb_spec (cmpk (vkey a) (vkey c)) 0); lia.
Qed.

Lemma ile_total desc a b : ile desc a b = false -> ile desc b a = true.
Proof.
  destruct desc; [rewrite !ile_desc|]; unfold ile; intros H; apply Z.leb_gt in H; apply Z.leb_le.
  - rewrite (icmp_asc_antisym b a). lia.
  - rewrite (icmp_asc_antisym a b). lia.
Qed.

Lemma ile_trans desc a b c : ile desc a b = true -> ile desc b c = true -> ile desc a c = true.
Proof.
  destruct desc; [rewrite !ile_desc|]; unfold ile; intros H1 H2;
    apply Z.leb_le in H1, H2; apply Z.leb_le.
  - eapply icmp_asc_le_trans; eauto.
  - eapply icmp_asc_le_trans; eauto.
Qed.

Lemma ile_refl desc a : ile desc a a = true.
Proof. destruct (ile desc a a) eqn:E; [reflexivity|]. pose proof (ile_total _ _ _ E) as E'. congruence. Qed.

(* the import order refines the key order *)
Lemma ile_asc_key a b : ile false a b = true -> cmpk (vkey a) (vkey b) <= 0.
Proof.
  unfold ile, icmp. intros H. apply Z.leb_le in H.
  destruct (Z.eqb_spec (cmpk (vkey a) (vkey b)) 0); lia.
Qed.
Lemma ile_desc_key a b : ile true a b = true -> cmpk (vkey b) (vkey a) <= 0.
Proof. rewrite ile_desc. apply ile_asc_key. Qed.

(* ------------------------------------------------------------------ *)
(* Insertion sort: sorted, a permutation. *)

Definition ileP desc (a b : val) : Prop := ile desc a b = true.

Lemma insert_perm le x l : Permutation (x :: l) (insert le x l).
Proof.
  induction l as [|y r IH]; simpl; [apply Permutation_refl|].
  destruct (le x y); [apply Permutation_refl|].
  eapply perm_trans; [apply perm_swap|]. apply perm_skip. exact IH.
Qed.

Lemma isort_perm le l : Permutation l (isort le l).
Proof.
  induction l as [|x r IH]; simpl; [apply perm_nil|].
  eapply perm_trans; [apply perm_skip; exact IH|]. apply insert_perm.
Qed.

Lemma insert_hdrel desc x y l :
  ile desc y x = true -> HdRel (ileP desc) y l -> HdRel (ileP desc) y (insert (ile desc) x l).
Proof.
  intros Hyx H. destruct l as [|z r]; simpl.
  - constructor. exact Hyx.
  - destruct (ile desc x z); constructor; [exact Hyx|]. inversion H; assumption.
Qed.

Lemma insert_sorted desc x l : Sorted (ileP desc) l -> Sorted (ileP desc) (insert (ile desc) x l).
Proof.
  induction l as [|y r IH]; simpl; intros H.
  - repeat constructor.
  - destruct (ile desc x y) eqn:E.
    + constructor; [exact H|]. constructor. exact E.
    + inversion H as [|? ? Hs Hh]; subst. constructor; [apply IH; exact Hs|].
      apply insert_hdrel; [apply ile_total; exact E | exact Hh].
Qed.

Lemma isort_sorted desc l : Sorted (ileP desc) (isort (ile desc) l).
Proof.
  induction l as [|x r IH]; simpl; [constructor|]. apply insert_sorted. exact IH.
Qed.

Lemma ileP_trans desc : Relations_1.Transitive (ileP desc).
Proof. intros a b c. apply ile_trans. Qed.

Lemma isort_ssorted desc l : StronglySorted (ileP desc) (isort (ile desc) l).
Proof. apply Sorted_StronglySorted; [apply ileP_trans | apply isort_sorted]. Qed.

(* ------------------------------------------------------------------ *)
(* Cutting into objects loses and duplicates nothing. *)

Lemma cut_concat thresh : forall l acc size, List.concat (cut thresh acc size l) = rev acc ++ l.
Proof.
  induction l as [|v r IH]; intros acc size; simpl.
  - destruct acc; simpl; [reflexivity|]. rewrite !app_nil_r. reflexivity.
  - destruct (size + Z.of_nat (Datatypes.length (vbody v)) >=? thresh).
    + simpl. rewrite IH. simpl. rewrite <- app_assoc. reflexivity.
    + rewrite IH. simpl. rewrite <- app_assoc. reflexivity.
Qed.

Lemma cut_nonempty thresh : forall l acc size, Forall (fun c => c <> []) (cut thresh acc size l).
Proof.
  induction l as [|v r IH]; intros acc size; simpl.
  - destruct acc; constructor; [|constructor]. simpl. intros E. apply app_eq_nil in E. destruct E; discriminate.
  - destruct (size + Z.of_nat (Datatypes.length (vbody v)) >=? thresh).
    + constructor; [|apply IH]. simpl. intros E. apply app_eq_nil in E. destruct E; discriminate.
    + apply IH.
Qed.

Lemma flat_map_dvals_perm desc chunks :
  Permutation (flat_map dvals (map (mk_obj desc) chunks)) (List.concat chunks).
Proof.
  induction chunks as [|c r IH]; simpl; [apply perm_nil|].
  apply Permutation_app; [apply Permutation_sym, isort_perm | exact IH].
Qed.

Theorem load_objs_perm desc thresh l :
  Permutation (flat_map dvals (load_objs desc thresh l)) l.
Proof.
  unfold load_objs. eapply perm_trans; [apply flat_map_dvals_perm|].
  rewrite cut_concat. simpl. apply Permutation_refl.
Qed.

(* Metadata accuracy. *)
Lemma ssorted_first desc x l v :
  StronglySorted (ileP desc) (x :: l) -> In v (x :: l) -> ile desc x v = true.
Proof.
  intros H Hin. inversion H as [|? ? Hs Hall]; subst.
  destruct Hin as [->|Hin]; [apply ile_refl|].
  rewrite Forall_forall in Hall. apply Hall. exact Hin.
Qed.

Lemma ssorted_last desc : forall l v,
  StronglySorted (ileP desc) l -> In v l ->
  exists z t, rev l = z :: t /\ ile desc v z = true.
Proof.
  induction l as [|x r IH]; intros v H Hin; [destruct Hin|].
  inversion H as [|? ? Hs Hall]; subst.
  destruct r as [|y r'].
  - exists x, []. destruct Hin as [->|[]]. split; [reflexivity | apply ile_refl].
  - assert (Hy : In y (y :: r')) by (left; reflexivity).
    destruct (IH y Hs Hy) as [z [t [Er _]]].
    exists z, (t ++ [x]). split.
    + change (rev (x :: y :: r')) with (rev (y :: r') ++ [x]). rewrite Er. reflexivity.
    + destruct Hin as [->|Hin].
      * rewrite Forall_forall in Hall. apply Hall. apply in_rev. rewrite Er. left. reflexivity.
      * destruct (IH v Hs Hin) as [z' [t' [Er' Hz]]]. rewrite Er in Er'. inversion Er'; subst. exact Hz.
Qed.

Definition dmeta_ok (o : dobj) : Prop :=
  forall v, In v (dvals o) -> cmpk (dmin o) (vkey v) <= 0 /\ cmpk (vkey v) (dmax o) <= 0.

Theorem mk_obj_meta desc chunk :
  dmeta_ok (mk_obj desc chunk) /\ dcount (mk_obj desc chunk) = Datatypes.length chunk
  /\ Permutation (dvals (mk_obj desc chunk)) chunk.
Proof.
  split; [|split].
  - unfold dmeta_ok, mk_obj. simpl. intros v Hin.
    pose proof (isort_ssorted desc chunk) as SS.
    set (s := isort (ile desc) chunk) in *.
    destruct (ssorted_last desc s v SS Hin) as [z [t [Er HL]]].
    destruct s as [|x r] eqn:Es; [destruct Hin|].
    pose proof (ssorted_first desc x r v SS Hin) as HF.
    unfold last_key, first_key. rewrite Er.
    destruct desc.
    + apply ile_desc_key in HF. apply ile_desc_key in HL.
      rewrite cmpk_man_l, cmpk_man_r. split; assumption.
    + apply ile_asc_key in HF. apply ile_asc_key in HL.
      rewrite cmpk_man_l, cmpk_man_r. split; assumption.
  - unfold mk_obj. simpl. symmetry. apply Permutation_length. apply isort_perm.
  - unfold mk_obj. simpl. apply Permutation_sym. apply isort_perm.
Qed.

(* ------------------------------------------------------------------ *)
(* Branch contents under operations. *)

Lemma contents_app a b : contents (a ++ b) = contents a ++ contents b.
Proof. unfold contents. apply flat_map_app. Qed.

Lemma contents_fresh : forall chunks n, contents (fresh_objs n chunks) = List.concat chunks.
Proof.
  induction chunks as [|c r IH]; intros n; simpl; [reflexivity|].
  unfold contents in *. simpl. rewrite IH. reflexivity.
Qed.

Lemma concat_filter_nonempty (cs : list (list val)) :
  List.concat (filter (fun c => negb (Nat.eqb (Datatypes.length c) 0)) cs) = List.concat cs.
Proof.
  induction cs as [|c r IH]; simpl; [reflexivity|].
  destruct c as [|x c']; simpl; [exact IH|]. rewrite IH. reflexivity.
Qed.

Lemma select_remove_perm ids b :
  Permutation (contents b) (contents (select_ids ids b) ++ contents (remove_ids ids b)).
Proof.
  induction b as [|o r IH]; simpl; [apply perm_nil|].
  unfold select_ids, remove_ids in *. simpl.
  destruct (existsb (Nat.eqb (bid o)) ids); simpl; unfold contents in *; simpl.
  - rewrite <- app_assoc. apply Permutation_app_head. exact IH.
  - eapply perm_trans; [apply Permutation_app_head; exact IH|].
    rewrite !app_assoc. apply Permutation_app_tail. apply Permutation_app_comm.
Qed.

Lemma filter_none_id (p : val -> bool) l : existsb p l = false -> filter (fun v => negb (p v)) l = l.
Proof.
  induction l as [|x r IH]; simpl; intros H; [reflexivity|].
  apply orb_false_iff in H as [H1 H2]. rewrite H1. simpl. rewrite IH by exact H2. reflexivity.
Qed.

Lemma deletewhere_perm (p : val -> bool) (b : branch) :
  Permutation
    (contents (filter (fun o => negb (existsb p (bvals o))) b) ++
     List.concat (map (fun o => filter (fun v => negb (p v)) (bvals o)) (filter (fun o => existsb p (bvals o)) b)))
    (filter (fun v => negb (p v)) (contents b)).
Proof.
  induction b as [|o r IH]; simpl; [apply perm_nil|].
  unfold contents in *. simpl. rewrite filter_app.
  destruct (existsb p (bvals o)) eqn:E; simpl.
  - eapply perm_trans; [apply Permutation_app_comm|]. simpl. rewrite <- app_assoc.
    apply Permutation_app_head. eapply perm_trans; [apply Permutation_app_comm|]. exact IH.
  - rewrite (filter_none_id p _ E). rewrite <- app_assoc. apply Permutation_app_head. exact IH.
Qed.

Lemma chunk_every_concat n : forall fuel l,
  (Datatypes.length l <= fuel)%nat -> List.concat (chunk_every (S n) l fuel) = l.
Proof.
  induction fuel as [|f IH]; intros l Hl; simpl.
  - destruct l; [reflexivity | simpl in Hl; lia].
  - destruct l as [|x r]; [reflexivity|].
    cbn [List.concat]. rewrite IH.
    + apply (firstn_skipn (S n) (x :: r)).
    + rewrite skipn_length. simpl in *. lia.
Qed.

(* One step: the ledger equation is preserved. *)
Definition ledger_ok (l : ledger) : Prop :=
  Permutation (loaded l) (deleted l ++ contents (lbranch (st l))).

Lemma isort_concat_perm desc (cs : list (list val)) :
  Permutation (List.concat cs) (List.concat (map (isort (ile desc)) cs)).
Proof.
  induction cs as [|c r IH]; simpl; [apply perm_nil|].
  apply Permutation_app; [apply isort_perm | exact IH].
Qed.

Lemma filter_split_perm (p : val -> bool) l :
  Permutation l (filter p l ++ filter (fun v => negb (p v)) l).
Proof.
  induction l as [|v r IH]; simpl; [apply perm_nil|].
  destruct (p v); simpl.
  - apply perm_skip. exact IH.
  - eapply perm_trans; [apply perm_skip; exact IH|]. apply Permutation_middle.
Qed.

Lemma ledger_step_ok desc l o : ledger_ok l -> ledger_ok (ledger_step desc l o).
Proof.
  unfold ledger_ok, ledger_step. intros H.
  destruct o as [chunks|ids|p m|ids n|]; unfold lstep.
  - (* load *)
    destruct (filter (fun c => negb (Nat.eqb (Datatypes.length c) 0)) chunks) as [|c0 cs] eqn:Ef; [exact H|].
    cbn [st loaded deleted lbranch]. rewrite contents_app, contents_fresh.
    eapply perm_trans; [apply Permutation_app_tail; exact H|].
    rewrite <- !app_assoc. apply Permutation_app_head. apply Permutation_app_head.
    rewrite <- (concat_filter_nonempty chunks), Ef. apply isort_concat_perm.
  - (* delete by id *)
    destruct (forallb (has_id (lbranch (st l))) ids && nodupb ids && negb (Nat.eqb (Datatypes.length ids) 0)); [|exact H].
    cbn [st loaded deleted lbranch]. eapply perm_trans; [exact H|]. rewrite <- app_assoc.
    apply Permutation_app_head. apply select_remove_perm.
  - (* delete where *)
    destruct (filter (fun o => existsb p (bvals o)) (lbranch (st l))) as [|h0 hs] eqn:Eh; [exact H|].
    cbn [st loaded deleted lbranch]. rewrite contents_app, contents_fresh, chunk_every_concat by lia.
    rewrite <- Eh.
    eapply perm_trans; [exact H|]. rewrite <- app_assoc. apply Permutation_app_head.
    eapply perm_trans; [apply filter_split_perm with (p := p)|]. apply Permutation_app_head.
    eapply perm_trans; [apply Permutation_sym; apply deletewhere_perm|].
    apply Permutation_app_head. apply isort_perm.
  - (* compact *)
    destruct (forallb (has_id (lbranch (st l))) ids && nodupb ids && (2 <=? Datatypes.length ids)%nat); [|exact H].
    cbn [st loaded deleted lbranch]. rewrite contents_app, contents_fresh, chunk_every_concat by lia.
    eapply perm_trans; [exact H|]. apply Permutation_app_head.
    eapply perm_trans; [apply select_remove_perm|].
    eapply perm_trans; [apply Permutation_app_comm|].
    apply Permutation_app_head. apply isort_perm.
  - exact H.
Qed.

(* Every history: everything loaded = everything deleted + what the branch holds. *)
Theorem contents_spec desc h : ledger_ok (ledger_run desc h).
Proof.
  unfold ledger_run.
  assert (G : forall l0, ledger_ok l0 -> ledger_ok (fold_left (ledger_step desc) h l0)).
  { induction h as [|o r IH]; intros l0 H0; simpl; [exact H0|]. apply IH. apply ledger_step_ok. exact H0. }
  apply G. unfold ledger_ok. simpl. apply perm_nil.
Qed.

(* The ledger's state component is the model run. *)
Lemma ledger_st desc h : st (ledger_run desc h) = lrun desc h.
Proof.
  unfold ledger_run, lrun.
  set (l0 := {| st := {| lbranch := []; lnext := 0%nat |}; loaded := []; deleted := [] |}).
  change {| lbranch := []; lnext := 0%nat |} with (st l0).
  generalize l0. clear l0.
  induction h as [|o r IH]; intros l0; simpl; [reflexivity|].
  rewrite IH. f_equal. unfold ledger_step, lstep'.
  destruct (lstep desc (st l0) o); [destruct o; reflexivity | reflexivity].
Qed.

(* A predicate delete removes exactly the values for which the predicate is
   true (when no value satisfies it the operation fails and nothing changes,
   which is the same thing). *)
Lemma no_hit_filter_id (p : val -> bool) (b : branch) :
  filter (fun o => existsb p (bvals o)) b = [] ->
  filter (fun v => negb (p v)) (contents b) = contents b.
Proof.
  induction b as [|o r IH]; simpl; intros H; [reflexivity|].
  destruct (existsb p (bvals o)) eqn:E; [discriminate|].
  unfold contents in *. simpl. rewrite filter_app, (filter_none_id p _ E), IH by exact H. reflexivity.
Qed.

Theorem delete_where_exact desc s p n :
  Permutation (contents (lbranch (lstep' desc s (ODeleteWhere p n))))
              (filter (fun v => negb (p v)) (contents (lbranch s))).
Proof.
  unfold lstep', lstep.
  destruct (filter (fun o => existsb p (bvals o)) (lbranch s)) as [|h0 hs] eqn:Eh.
  - rewrite (no_hit_filter_id p _ Eh). apply Permutation_refl.
  - cbn [lbranch]. rewrite contents_app, contents_fresh, chunk_every_concat by lia. rewrite <- Eh.
    eapply perm_trans; [|apply deletewhere_perm].
    apply Permutation_app_head. apply Permutation_sym. apply isort_perm.
Qed.

(* An operation that fails changes nothing. *)
Theorem failed_op_no_change desc s o : lstep desc s o = None -> lstep' desc s o = s.
Proof. unfold lstep'. intros ->. reflexivity. Qed.

(* ------------------------------------------------------------------ *)
(* Merging scan: sorted and a permutation. *)

Lemma merge2_perm le : forall a b, Permutation (merge2 le a b) (a ++ b).
Proof.
  induction a as [|x a' IHa]; intros b.
  - destruct b; simpl; apply Permutation_refl.
  - induction b as [|y b' IHb].
    + simpl. rewrite app_nil_r. apply Permutation_refl.
    + simpl. destruct (le x y).
      * apply perm_skip. apply IHa.
      * eapply perm_trans; [apply perm_skip; exact IHb|].
        change (Permutation (y :: (x :: a') ++ b') ((x :: a') ++ y :: b')).
        apply Permutation_middle.
Qed.

Lemma hdrel_merge2 desc z : forall a b,
  HdRel (ileP desc) z a -> HdRel (ileP desc) z b -> HdRel (ileP desc) z (merge2 (ile desc) a b).
Proof.
  intros a b Ha Hb. destruct a as [|x a']; [destruct b; simpl; assumption|].
  destruct b as [|y b']; [simpl; assumption|].
  simpl. destruct (ile desc x y); constructor; [inversion Ha | inversion Hb]; assumption.
Qed.

Lemma merge2_sorted desc : forall a b,
  Sorted (ileP desc) a -> Sorted (ileP desc) b -> Sorted (ileP desc) (merge2 (ile desc) a b).
Proof.
  induction a as [|x a' IHa]; intros b Sa Sb.
  - destruct b; simpl; assumption.
  - induction b as [|y b' IHb].
    + simpl. assumption.
    + simpl. destruct (ile desc x y) eqn:E.
      * inversion Sa as [|? ? Sa' Ha]; subst. constructor; [apply IHa; assumption|].
        apply hdrel_merge2; [exact Ha | constructor; exact E].
      * inversion Sb as [|? ? Sb' Hb]; subst. constructor; [apply IHb; assumption|].
        change (HdRel (ileP desc) y (merge2 (ile desc) (x :: a') b')).
        apply hdrel_merge2; [constructor; apply ile_total; exact E | exact Hb].
Qed.

Definition objs_sorted desc (b : branch) : Prop :=
  Forall (fun o => Sorted (ileP desc) (bvals o)) b.

Theorem scan_sorted desc b : objs_sorted desc b -> Sorted (ileP desc) (scan desc b).
Proof.
  unfold objs_sorted, scan. induction 1 as [|o r Ho Hr IH]; simpl; [constructor|].
  apply merge2_sorted; assumption.
Qed.

Theorem scan_perm desc b : Permutation (scan desc b) (contents b).
Proof.
  unfold scan, contents. induction b as [|o r IH]; simpl; [apply perm_nil|].
  eapply perm_trans; [apply merge2_perm|]. apply Permutation_app_head. exact IH.
Qed.

(* Every object of every reachable branch state is sorted in import order. *)
Lemma ssorted_filter desc (f : val -> bool) l :
  StronglySorted (ileP desc) l -> StronglySorted (ileP desc) (filter f l).
Proof.
  induction 1 as [|x r Hs IH Hall]; simpl; [constructor|].
  destruct (f x); [|exact IH]. constructor; [exact IH|].
  rewrite Forall_forall in *. intros v Hv. apply filter_In in Hv as [Hv _]. apply Hall. exact Hv.
Qed.

Lemma in_firstn {A} n : forall (l : list A) v, In v (firstn n l) -> In v l.
Proof.
  induction n as [|n IH]; intros l v H; simpl in H; [destruct H|].
  destruct l as [|x r]; [destruct H|]. destruct H as [->|H]; [left; reflexivity | right; apply IH; exact H].
Qed.

Lemma ssorted_firstn desc n : forall l, StronglySorted (ileP desc) l -> StronglySorted (ileP desc) (firstn n l).
Proof.
  induction n as [|n IH]; intros l H; simpl; [constructor|].
  destruct l as [|x r]; [constructor|]. inversion H as [|? ? Hs Hall]; subst.
  constructor; [apply IH; exact Hs|].
  rewrite Forall_forall in *. intros v Hv. apply Hall. eapply in_firstn; eauto.
Qed.

Lemma ssorted_skipn desc n : forall l, StronglySorted (ileP desc) l -> StronglySorted (ileP desc) (skipn n l).
Proof.
  induction n as [|n IH]; intros l H; simpl; [exact H|].
  destruct l as [|x r]; [constructor|]. inversion H; subst. apply IH. assumption.
Qed.

Lemma chunk_every_sorted desc n : forall fuel l,
  StronglySorted (ileP desc) l -> Forall (fun c => Sorted (ileP desc) c) (chunk_every (S n) l fuel).
Proof.
  induction fuel as [|f IH]; intros l H; simpl.
  - destruct l; constructor; [|constructor]. apply StronglySorted_Sorted. exact H.
  - destruct l as [|x r]; [constructor|]. constructor.
    + apply StronglySorted_Sorted. apply (ssorted_firstn desc (S n) (x :: r) H).
    + apply IH. apply (ssorted_skipn desc (S n) (x :: r) H).
Qed.

Lemma fresh_objs_sorted desc : forall chunks n,
  Forall (fun c => Sorted (ileP desc) c) chunks -> objs_sorted desc (fresh_objs n chunks).
Proof.
  induction chunks as [|c r IH]; intros n H; simpl; [constructor|].
  inversion H; subst. constructor; [simpl; assumption | apply IH; assumption].
Qed.

Lemma objs_sorted_filter desc (f : bobj -> bool) b : objs_sorted desc b -> objs_sorted desc (filter f b).
Proof.
  unfold objs_sorted. intros H. rewrite Forall_forall in *. intros o Ho.
  apply filter_In in Ho as [Ho _]. apply H. exact Ho.
Qed.

Lemma lstep_sorted desc s o :
  objs_sorted desc (lbranch s) -> objs_sorted desc (lbranch (lstep' desc s o)).
Proof.
  intros H. unfold lstep', lstep. destruct o as [chunks|ids|p m|ids n|].
  - destruct (filter (fun c => negb (Nat.eqb (Datatypes.length c) 0)) chunks) as [|c0 cs] eqn:Ef; [exact H|].
    cbn [lbranch]. apply Forall_app. split; [exact H|].
    apply fresh_objs_sorted. apply Forall_forall. intros c Hc.
    apply in_map_iff in Hc as [c' [<- _]]. apply isort_sorted.
  - destruct (forallb (has_id (lbranch s)) ids && nodupb ids && negb (Nat.eqb (Datatypes.length ids) 0)); [|exact H].
    cbn [lbranch]. apply objs_sorted_filter. exact H.
  - destruct (filter (fun o => existsb p (bvals o)) (lbranch s)) as [|h0 hs] eqn:Eh; [exact H|].
    cbn [lbranch]. apply Forall_app. split; [apply objs_sorted_filter; exact H|].
    apply fresh_objs_sorted. apply chunk_every_sorted. apply isort_ssorted.
  - destruct (forallb (has_id (lbranch s)) ids && nodupb ids && (2 <=? Datatypes.length ids)%nat); [|exact H].
    cbn [lbranch]. apply Forall_app. split; [apply objs_sorted_filter; exact H|].
    apply fresh_objs_sorted. apply chunk_every_sorted. apply isort_ssorted.
  - exact H.
Qed.

Theorem reachable_sorted desc h : objs_sorted desc (lbranch (lrun desc h)).
Proof.
  unfold lrun.
  assert (G : forall s0, objs_sorted desc (lbranch s0) -> objs_sorted desc (lbranch (fold_left (lstep' desc) h s0))).
  { induction h as [|o r IH]; intros s0 H0; simpl; [exact H0|]. apply IH. apply lstep_sorted. exact H0. }
  apply G. constructor.
Qed.

(* An unfiltered scan of any reachable branch state is in pool order and holds
   exactly the branch's values. *)
Theorem scan_reachable desc h :
  Sorted (ileP desc) (scan desc (lbranch (lrun desc h))) /\
  Permutation (scan desc (lbranch (lrun desc h))) (contents (lbranch (lrun desc h))).
Proof. split; [apply scan_sorted, reachable_sorted | apply scan_perm]. Qed.

(* non-vacuity *)
Example lake_example :
  let v k b := {| vkey := k; vbody := b |} in
  let h := [OLoad [[v (KInt 3) [3%N]; v (KInt 1) [1%N]]; [v KNull [9%N]]]; ODeleteWhere (fun x => key_eqb (vkey x) (KInt 3)) 7;
            OLoad [[v (KInt 2) [2%N]]]; OCompact [1%nat; 2%nat; 3%nat] 5] in
  map vkey (scan false (lbranch (lrun false h))) = [KInt 1; KInt 2; KNull].
Proof. vm_compute. reflexivity. Qed.
