(* C02: unescape (escape s) = s for every string, and name quoting. *)
From ZV Require Import Base.Prelude Model.Escape.
Local Open Scope N_scope.

Lemma N_lt_128_cases c : c < 128 -> In c (map N.of_nat (seq 0 128)).
Proof.
  intros H. rewrite <- (N2Nat.id c). apply in_map. apply in_seq. split; [lia|].
  simpl. change 128%nat with (N.to_nat 128). lia.
Qed.

Ltac enum128 H fin :=
  apply N_lt_128_cases in H; simpl in H;
  repeat (destruct H as [H | H]; [subst; first [reflexivity | fin] |]); try contradiction.

Lemma esc1_high c : 128 <=? c = true -> esc1 c = [c].
Proof. intros H. unfold esc1. rewrite H. reflexivity. Qed.

Lemma high_facts c : 128 <=? c = true ->
  (c =? 34) = false /\ (c =? 92) = false /\ (c <? 32) = false.
Proof.
  intros H. apply N.leb_le in H. repeat split.
  - apply N.eqb_neq. lia.
  - apply N.eqb_neq. lia.
  - apply N.ltb_ge. lia.
Qed.

(* --- scanToCloseQuote finds the closing quote --- *)
Lemma split_close_esc1 c t :
  split_close (esc1 c ++ t) =
  match split_close t with Some (a, b) => Some (esc1 c ++ a, b) | None => None end.
Proof.
  destruct (128 <=? c) eqn:Hc.
  - rewrite (esc1_high _ Hc). destruct (high_facts _ Hc) as (E1 & E2 & _).
    simpl. rewrite E1, E2. reflexivity.
  - apply N.leb_gt in Hc.
    enum128 Hc ltac:(simpl; destruct (split_close t) as [[? ?]|]; reflexivity).
Qed.

Lemma split_close_escape s rest :
  split_close (escape s ++ 34 :: rest) = Some (escape s, 34 :: rest).
Proof.
  induction s as [|c r IH]; simpl; [reflexivity|].
  rewrite <- app_assoc, split_close_esc1, IH. reflexivity.
Qed.

(* --- parseStringBytes inverts QuotedString --- *)
Lemma parse_slow_esc1 c t :
  parse_slow (esc1 c ++ t) = option_map (cons c) (parse_slow t).
Proof.
  destruct (128 <=? c) eqn:Hc.
  - rewrite (esc1_high _ Hc). destruct (high_facts _ Hc) as (E1 & E2 & E3).
    simpl. rewrite E2, E1, E3. reflexivity.
  - apply N.leb_gt in Hc.
    enum128 Hc ltac:(simpl; destruct (parse_slow t); reflexivity).
Qed.

Lemma parse_slow_escape s : parse_slow (escape s) = Some s.
Proof.
  induction s as [|c r IH]; simpl; [reflexivity|].
  rewrite parse_slow_esc1, IH. reflexivity.
Qed.

Lemma slow_escape s rest : slow (escape s ++ 34 :: rest) = Some (s, 34 :: rest).
Proof.
  unfold slow. rewrite split_close_escape, parse_slow_escape. reflexivity.
Qed.

(* --- the fast path --- *)
Definition goes_slow (c : N) : bool :=
  (c <? 32) && negb ((c =? 8) || (c =? 9) || (c =? 10) || (c =? 12) || (c =? 13)).

Lemma scan_esc1 c t : c < 128 ->
  scan (esc1 c ++ t) = if goes_slow c then slow (esc1 c ++ t) else pair_cons c (scan t).
Proof. intros Hc. enum128 Hc ltac:(simpl; destruct (scan t) as [[? ?]|]; reflexivity). Qed.

Theorem scan_escape : forall s rest, scan (escape s ++ 34 :: rest) = Some (s, 34 :: rest).
Proof.
  induction s as [|c r IH]; intros rest; [reflexivity|].
  destruct (128 <=? c) eqn:Hc.
  - pose proof (slow_escape (c :: r) rest) as S.
    simpl in *. rewrite (esc1_high _ Hc) in *. simpl in *.
    destruct (high_facts _ Hc) as (E1 & _ & _). rewrite E1, Hc. exact S.
  - apply N.leb_gt in Hc. simpl. rewrite <- app_assoc, (scan_esc1 _ _ Hc).
    destruct (goes_slow c).
    + rewrite app_assoc. exact (slow_escape (c :: r) rest).
    + rewrite IH. reflexivity.
Qed.

Theorem unquote_quoted : forall s rest, unquote (quoted s ++ rest) = Some (s, rest).
Proof.
  intros s rest. unfold quoted, unquote. simpl.
  rewrite <- app_assoc. simpl. rewrite scan_escape. reflexivity.
Qed.

(* --- names --- *)
Section Names.
  Variable letter : N -> bool.
  Hypothesis quote_not_letter : letter 34 = false.

  Definition boundary (rest : str) : Prop :=
    match rest with [] => True | c :: _ => type_char letter c = false end.

  Lemma take_ident_rest s rest :
    ident_rest letter s = true -> boundary rest ->
    take_type_chars letter (s ++ rest) = (s, rest).
  Proof.
    intros H B. induction s as [|c r IH].
    - destruct rest as [|d rest']; [reflexivity|]. unfold boundary in B.
      change ([] ++ d :: rest') with (d :: rest'). unfold take_type_chars. rewrite B. reflexivity.
    - change (ident_rest letter (c :: r)) with ((id_char letter c || digit c) && ident_rest letter r) in H.
      apply andb_true_iff in H as [H1 H2].
      assert (T : type_char letter c = true).
      { unfold type_char. apply orb_true_iff in H1 as [H1|H1]; rewrite H1;
          [reflexivity | rewrite orb_true_r; reflexivity]. }
      change ((c :: r) ++ rest) with (c :: (r ++ rest)).
      change (take_type_chars letter (c :: r ++ rest)) with
        (if type_char letter c then let '(a, b) := take_type_chars letter (r ++ rest) in (c :: a, b) else ([], c :: r ++ rest)).
      rewrite T, (IH H2). reflexivity.
  Qed.

  Theorem symbol_roundtrip : forall s rest, boundary rest ->
    match_symbol letter (quoted_name letter s ++ rest) = Some (s, rest).
  Proof.
    intros s rest B. unfold quoted_name.
    destruct (is_identifier letter s) eqn:I.
    - destruct s as [|c r]; [discriminate|]. simpl in I.
      apply andb_true_iff in I as [I1 I2].
      assert (N34 : (c =? 34) = false).
      { destruct (c =? 34) eqn:E; [|reflexivity]. apply N.eqb_eq in E. subst c.
        unfold id_char in I1. rewrite quote_not_letter in I1. discriminate. }
      unfold match_symbol. simpl app. cbv iota beta. rewrite N34, I1.
      assert (R : ident_rest letter (c :: r) = true).
      { simpl. rewrite I1, I2. reflexivity. }
      change (c :: r ++ rest) with ((c :: r) ++ rest).
      rewrite (take_ident_rest _ _ R B). simpl. rewrite I1, I2. reflexivity.
    - unfold match_symbol. unfold quoted at 1. simpl app. simpl.
      change (34 :: (escape s ++ [34]) ++ rest) with (quoted s ++ rest).
      apply unquote_quoted.
  Qed.

  (* totality of the quoting rule: every name has exactly one of the two spellings *)
  Theorem name_quoting_total : forall s,
    (is_identifier letter s = true /\ quoted_name letter s = s) \/
    (is_identifier letter s = false /\ quoted_name letter s = quoted s).
  Proof.
    intros s. unfold quoted_name. destruct (is_identifier letter s); [left | right]; split; reflexivity.
  Qed.
End Names.

(* non-vacuity: the ASCII letter predicate satisfies the hypothesis *)
Example ascii_letter_ok : ascii_letter 34 = false.
Proof. reflexivity. Qed.

Example escape_example :
  unquote (quoted [97; 34; 92; 10; 1; 233; 128512] ++ [58]) = Some ([97; 34; 92; 10; 1; 233; 128512], [58]).
Proof. vm_compute. reflexivity. Qed.
