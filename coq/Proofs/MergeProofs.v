From ZV Require Import Base.Prelude Model.Merge.

(* ---------------- membership algebra ---------------- *)

Lemma mem_app x a b : mem x (a ++ b) = mem x a || mem x b.
Proof. unfold mem. apply existsb_app. Qed.

Lemma mem_filter x f s : mem x (filter f s) = mem x s && f x.
Proof.
  unfold mem. induction s as [|y r IH]; simpl; [reflexivity|].
  destruct (f y) eqn:Fy; simpl; rewrite IH.
  - destruct (Nat.eqb_spec x y) as [->|N]; simpl; [rewrite Fy; reflexivity | reflexivity].
  - destruct (Nat.eqb_spec x y) as [->|N]; simpl; [rewrite Fy, andb_false_r; reflexivity | reflexivity].
Qed.

Lemma mem_remove1 x y s : mem x (remove1 y s) = mem x s && negb (Nat.eqb x y).
Proof. unfold remove1. apply mem_filter. Qed.

Lemma mem_In x s : mem x s = true <-> In x s.
Proof.
  unfold mem. rewrite existsb_exists. split.
  - intros [y [Hy E]]. apply Nat.eqb_eq in E. subst. exact Hy.
  - intros H. exists x. split; [exact H | apply Nat.eqb_refl].
Qed.

Lemma mem_cons x y s : mem x (y :: s) = Nat.eqb x y || mem x s.
Proof. reflexivity. Qed.

Lemma nodup_filter f s : nodup s = true -> nodup (filter f s) = true.
Proof.
  induction s as [|y r IH]; simpl; intros H; [reflexivity|].
  apply andb_true_iff in H as [H1 H2].
  destruct (f y); simpl; [|apply IH; exact H2].
  rewrite mem_filter. apply negb_true_iff in H1. rewrite H1. simpl. apply IH. exact H2.
Qed.

Lemma nodup_app a b :
  nodup a = true -> nodup b = true -> (forall x, mem x a = true -> mem x b = false) ->
  nodup (a ++ b) = true.
Proof.
  induction a as [|y r IH]; simpl; intros Ha Hb Hd; [exact Hb|].
  apply andb_true_iff in Ha as [H1 H2]. apply negb_true_iff in H1.
  rewrite mem_app, H1. simpl.
  rewrite (Hd y) by (rewrite Nat.eqb_refl; reflexivity). simpl.
  apply IH; [exact H2 | exact Hb |]. intros x Hx. apply Hd. rewrite Hx. apply orb_true_r.
Qed.

(* ---------------- playing deletes then adds ---------------- *)

Lemma filter_remove1 d r s :
  filter (fun x => negb (mem x r)) (remove1 d s) = filter (fun x => negb (mem x (d :: r))) s.
Proof.
  unfold remove1. induction s as [|y t IH]; simpl; [reflexivity|].
  destruct (Nat.eqb_spec y d) as [->|N]; simpl.
  - exact IH.
  - rewrite IH. reflexivity.
Qed.

Lemma play_dels : forall dels s rest,
  nodup dels = true -> (forall i, mem i dels = true -> mem i s = true) ->
  play s (map ADel dels ++ rest) = play (filter (fun x => negb (mem x dels)) s) rest.
Proof.
  induction dels as [|d r IH]; intros s rest Hn Hs; simpl.
  - f_equal. clear. induction s as [|y t IHs]; simpl; [reflexivity|]. f_equal. exact IHs.
  - apply andb_true_iff in Hn as [H1 H2]. apply negb_true_iff in H1.
    rewrite (Hs d) by (simpl; rewrite Nat.eqb_refl; reflexivity).
    rewrite IH; [| exact H2 |].
    + rewrite filter_remove1. reflexivity.
    + intros i Hi. rewrite mem_remove1, (Hs i) by (simpl; rewrite Hi; apply orb_true_r). simpl.
      destruct (Nat.eqb_spec i d) as [->|N]; [congruence | reflexivity].
Qed.

Lemma play_adds : forall adds s,
  nodup adds = true -> (forall i, mem i adds = true -> mem i s = false) ->
  play s (map AAdd adds) = Some (s ++ adds).
Proof.
  induction adds as [|a r IH]; intros s Hn Hs; simpl.
  - rewrite app_nil_r. reflexivity.
  - apply andb_true_iff in Hn as [H1 H2]. apply negb_true_iff in H1.
    rewrite (Hs a) by (simpl; rewrite Nat.eqb_refl; reflexivity).
    rewrite IH; [| exact H2 |].
    + rewrite <- app_assoc. reflexivity.
    + intros i Hi. rewrite mem_app, (Hs i) by (simpl; rewrite Hi; apply orb_true_r). simpl.
      destruct (Nat.eqb_spec i a) as [->|N]; [congruence | reflexivity].
Qed.

(* ---------------- Diff ---------------- *)

Lemma diff_dels_spec parent : forall ids acc r,
  diff_dels parent ids acc = Some r ->
  r = acc ++ ids /\ forall i, mem i ids = true -> pexists parent i = true /\ mem i (pdel parent) = false.
Proof.
  induction ids as [|i t IH]; intros acc r H; simpl in H.
  - inversion H; subst. rewrite app_nil_r. split; [reflexivity|]. intros i Hi. discriminate.
  - destruct (pexists parent i && negb (mem i (pdel parent))) eqn:E; [|discriminate].
    apply andb_true_iff in E as [E1 E2]. apply negb_true_iff in E2.
    destruct (IH _ _ H) as [-> Hall]. rewrite <- app_assoc. split; [reflexivity|].
    intros j Hj. rewrite mem_cons in Hj. destruct (Nat.eqb_spec j i) as [Eq|N]; [subst j; split; assumption|].
    apply Hall. exact Hj.
Qed.

Lemma diff_adds_spec parent child : forall cands acc r,
  diff_adds parent child cands acc = Some r ->
  r = acc ++ filter (fun o => negb (pexists parent o)) cands /\
  forall o, mem o (filter (fun o => negb (pexists parent o)) cands) = true -> mem o (pdel child) = false.
Proof.
  induction cands as [|o t IH]; intros acc r H; cbn [diff_adds] in H.
  - inversion H; subst. cbn [filter]. rewrite app_nil_r. split; [reflexivity|]. intros o Ho. discriminate.
  - cbn [filter]. destruct (pexists parent o) eqn:E; cbn [negb].
    + apply IH. exact H.
    + destruct (mem o (pdel child)) eqn:Ed; [discriminate|].
      destruct (mem o acc) eqn:Ea; [discriminate|].
      destruct (IH _ _ H) as [-> Hall]. rewrite <- app_assoc. split; [reflexivity|].
      intros x Hx. rewrite mem_cons in Hx. destruct (Nat.eqb_spec x o) as [Eq|N]; [subst x; exact Ed|].
      apply Hall. exact Hx.
Qed.

Lemma forallb_mem (f : oid -> bool) l x : forallb f l = true -> mem x l = true -> f x = true.
Proof.
  intros H Hx. rewrite forallb_forall in H. apply H. apply mem_In. exact Hx.
Qed.

Lemma filter_nil_if {A} (f : A -> bool) l : (forall x, In x l -> f x = false) -> filter f l = [].
Proof.
  induction l as [|y t IH]; simpl; intros H; [reflexivity|].
  rewrite (H y) by (left; reflexivity). apply IH. intros x Hx. apply H. right. exact Hx.
Qed.

Lemma wf_parts p : wf_patch p = true ->
  nodup (pbase p) = true /\ nodup (pdiff p) = true /\ nodup (pdel p) = true /\
  forallb (fun x => negb (mem x (pbase p))) (pdiff p) = true /\
  forallb (fun x => mem x (pbase p)) (pdel p) = true.
Proof.
  unfold wf_patch. intros H.
  repeat (apply andb_true_iff in H as [H ?]). repeat split; assumption.
Qed.

Lemma pview_nodup p : wf_patch p = true -> nodup (pview p) = true.
Proof.
  intros W. destruct (wf_parts p W) as [Nb [Nd [_ [Dj _]]]].
  unfold pview. apply nodup_app; [apply nodup_filter; exact Nb | exact Nd |].
  intros x Hx. rewrite mem_filter in Hx. apply andb_true_iff in Hx as [Hx _].
  destruct (mem x (pdiff p)) eqn:E; [|reflexivity].
  pose proof (forallb_mem _ _ _ Dj E) as F. simpl in F. rewrite Hx in F. discriminate.
Qed.

Lemma mem_pview p x : mem x (pview p) = (mem x (pbase p) && negb (mem x (pdel p))) || mem x (pdiff p).
Proof. unfold pview. rewrite mem_app, mem_filter. reflexivity. Qed.

(* The merge commit replays on the parent's tip and yields exactly
   parent + (what the child added since the base) - (what the child deleted since the base). *)
Theorem merge_exact parent child acts :
  wf_patch parent = true -> wf_patch child = true -> pbase parent = pbase child ->
  diff parent child = Some acts ->
  exists tip', play (pview parent) acts = Some tip' /\ nodup tip' = true /\
    forall x, mem x tip' = (mem x (pview parent) && negb (mem x (pdel child))) || mem x (pdiff child).
Proof.
  intros WP WC SameBase. unfold diff. intros H.
  destruct (diff_adds parent child (pbase child ++ pdiff child) []) as [adds|] eqn:Ea; [|discriminate].
  destruct (diff_dels parent (pdel child) []) as [dels|] eqn:Ed; [|discriminate].
  destruct (diff_adds_spec _ _ _ _ _ Ea) as [Eadds Hadds]. simpl in Eadds.
  destruct (diff_dels_spec _ _ _ _ Ed) as [Edels Hdels]. simpl in Edels. subst dels.
  assert (Hacts : acts = map ADel (pdel child) ++ map AAdd adds).
  { destruct adds; destruct (pdel child); try discriminate; inversion H; reflexivity. }
  clear H. subst acts.
  destruct (wf_parts parent WP) as [NbP [NdP [NxP [DjP SubP]]]].
  destruct (wf_parts child WC) as [NbC [NdC [NxC [DjC SubC]]]].
  assert (Eadds' : adds = filter (fun o => negb (pexists parent o)) (pdiff child)).
  { rewrite Eadds, filter_app.
    rewrite (filter_nil_if _ (pbase child)); [reflexivity|].
    intros x Hx. unfold pexists. rewrite SameBase.
    apply mem_In in Hx. rewrite Hx, orb_true_r. reflexivity. }
  clear Eadds.
  assert (Nadds : nodup adds = true) by (rewrite Eadds'; apply nodup_filter; exact NdC).
  (* deletes hit the parent's view *)
  assert (Hd : forall i, mem i (pdel child) = true -> mem i (pview parent) = true).
  { intros i Hi. destruct (Hdels i Hi) as [E1 E2]. rewrite mem_pview, E2. simpl.
    unfold pexists in E1. destruct (mem i (pdiff parent)); [apply orb_true_r|].
    simpl in E1. rewrite E1. reflexivity. }
  rewrite (play_dels _ _ _ NxC Hd).
  set (mid := filter (fun x => negb (mem x (pdel child))) (pview parent)).
  assert (Ha : forall i, mem i adds = true -> mem i mid = false).
  { intros i Hi. unfold mid. rewrite mem_filter, mem_pview.
    rewrite Eadds', mem_filter in Hi. apply andb_true_iff in Hi as [_ Hi].
    apply negb_true_iff in Hi. unfold pexists in Hi. apply orb_false_iff in Hi as [H1 H2].
    rewrite H1, H2. reflexivity. }
  rewrite (play_adds _ _ Nadds Ha).
  exists (mid ++ adds). split; [reflexivity|]. split.
  - apply nodup_app; [unfold mid; apply nodup_filter; apply pview_nodup; exact WP | exact Nadds |].
    intros x Hx. destruct (mem x adds) eqn:E; [|reflexivity]. rewrite (Ha x E) in Hx. discriminate.
  - intros x. rewrite mem_app. unfold mid. rewrite mem_filter, Eadds', mem_filter.
    destruct (mem x (pdiff child)) eqn:Ec; cbn [andb orb]; [|rewrite !orb_false_r; reflexivity].
    (* x was added by the child: either unknown to the parent (then added) or already in the parent's diff *)
    pose proof (forallb_mem _ _ _ DjC Ec) as F. cbn beta in F. apply negb_true_iff in F.
    assert (Fd : mem x (pdel child) = false).
    { destruct (mem x (pdel child)) eqn:E; [|reflexivity].
      pose proof (forallb_mem _ _ _ SubC E) as G. cbn beta in G. congruence. }
    unfold pexists. rewrite mem_pview, SameBase, F, Fd.
    destruct (mem x (pdiff parent)); destruct (mem x (pdel parent)); reflexivity.
Qed.

(* A conflict (or an empty difference) commits nothing: the parent is untouched.
   (diff = None means buildMergeObject returns an error before anything is written.) *)

(* ---------------- Revert ---------------- *)

Lemma forallb_filter_id {A} (f : A -> bool) l : forallb f l = true -> filter f l = l.
Proof.
  induction l as [|y t IH]; simpl; intros H; [reflexivity|].
  apply andb_true_iff in H as [H1 H2]. rewrite H1, IH by exact H2. reflexivity.
Qed.

Theorem revert_exact p tip acts :
  wf_patch p = true -> nodup tip = true ->
  revert p tip = Some acts ->
  exists tip', play tip acts = Some tip' /\ nodup tip' = true /\
    forall x, mem x tip' = (mem x tip && negb (mem x (pdiff p))) || mem x (pdel p).
Proof.
  intros W Nt. unfold revert.
  set (dels := filter (fun x => mem x tip) (pdiff p)).
  set (adds := filter (fun x => negb (mem x tip)) (pdel p)).
  intros H.
  assert (Hacts : acts = map ADel dels ++ map AAdd adds).
  { destruct dels; destruct adds; try discriminate; inversion H; reflexivity. }
  clear H. subst acts.
  destruct (wf_parts p W) as [Nb [Nd [Nx [Dj Sub]]]].
  assert (Ndels : nodup dels = true) by (apply nodup_filter; exact Nd).
  assert (Nadds : nodup adds = true) by (apply nodup_filter; exact Nx).
  assert (Hd : forall i, mem i dels = true -> mem i tip = true).
  { intros i Hi. unfold dels in Hi. rewrite mem_filter in Hi. apply andb_true_iff in Hi as [_ Hi]. exact Hi. }
  rewrite (play_dels _ _ _ Ndels Hd).
  set (mid := filter (fun x => negb (mem x dels)) tip).
  assert (Ha : forall i, mem i adds = true -> mem i mid = false).
  { intros i Hi. unfold mid. rewrite mem_filter. unfold adds in Hi. rewrite mem_filter in Hi.
    apply andb_true_iff in Hi as [_ Hi]. apply negb_true_iff in Hi. rewrite Hi. reflexivity. }
  rewrite (play_adds _ _ Nadds Ha).
  exists (mid ++ adds). split; [reflexivity|]. split.
  - apply nodup_app; [apply nodup_filter; exact Nt | exact Nadds |].
    intros x Hx. destruct (mem x adds) eqn:E; [|reflexivity]. rewrite (Ha x E) in Hx. discriminate.
  - intros x. rewrite mem_app. unfold mid, adds, dels. rewrite !mem_filter.
    destruct (mem x tip) eqn:Et; simpl.
    + rewrite andb_false_r, orb_false_r. rewrite andb_true_r.
      destruct (mem x (pdiff p)) eqn:Ed; simpl; [|reflexivity].
      (* added by the patch, so not among its deletions *)
      destruct (mem x (pdel p)) eqn:Ex; [|reflexivity].
      pose proof (forallb_mem _ _ _ Dj Ed) as F. pose proof (forallb_mem _ _ _ Sub Ex) as G.
      simpl in F, G. rewrite G in F. discriminate.
    + rewrite andb_true_r. reflexivity.
Qed.

(* Reverting the revert restores the prior contents. *)
Theorem revert_revert_id p tip acts tip' :
  wf_patch p = true -> nodup tip = true ->
  revert p tip = Some acts -> play tip acts = Some tip' ->
  let pr := {| pbase := tip;
               pdiff := filter (fun x => negb (mem x tip)) (pdel p);
               pdel := filter (fun x => mem x tip) (pdiff p) |} in
  wf_patch pr = true /\
  exists acts2 tip'', revert pr tip' = Some acts2 /\ play tip' acts2 = Some tip'' /\
                     forall x, mem x tip'' = mem x tip.
Proof.
  intros W Nt Hr Hp pr.
  destruct (wf_parts p W) as [Nb [Nd [Nx [Dj Sub]]]].
  destruct (revert_exact p tip acts W Nt Hr) as [t1 [Hp1 [Nt1 Hm1]]].
  rewrite Hp in Hp1. inversion Hp1; subst t1; clear Hp1.
  assert (Wr : wf_patch pr = true).
  { unfold wf_patch, pr. simpl. rewrite Nt. simpl.
    rewrite (nodup_filter _ _ Nx), (nodup_filter _ _ Nd). simpl.
    apply andb_true_iff. split.
    - apply forallb_forall. intros x Hx. apply filter_In in Hx as [_ Hx]. exact Hx.
    - apply forallb_forall. intros x Hx. apply filter_In in Hx as [_ Hx]. exact Hx. }
  split; [exact Wr|].
  assert (Hne : exists acts2, revert pr tip' = Some acts2).
  { unfold revert. simpl.
    (* the revert commit was not empty, so its own revert is not empty either *)
    unfold revert in Hr.
    set (d0 := filter (fun x => mem x tip) (pdiff p)) in *.
    set (a0 := filter (fun x => negb (mem x tip)) (pdel p)) in *.
    assert (E1 : filter (fun x => mem x tip') a0 = a0).
    { apply forallb_filter_id. apply forallb_forall. intros x Hx.
      rewrite Hm1. unfold a0 in Hx. apply filter_In in Hx as [Hx _]. apply mem_In in Hx. rewrite Hx. apply orb_true_r. }
    assert (E2 : filter (fun x => negb (mem x tip')) d0 = d0).
    { apply forallb_filter_id. apply forallb_forall. intros x Hx.
      rewrite Hm1. unfold d0 in Hx. apply filter_In in Hx as [Hx Ht]. apply mem_In in Hx.
      rewrite Hx, Ht. simpl.
      destruct (mem x (pdel p)) eqn:Ex; [|reflexivity].
      pose proof (forallb_mem _ _ _ Dj Hx) as F. pose proof (forallb_mem _ _ _ Sub Ex) as G.
      simpl in F, G. rewrite G in F. discriminate. }
    rewrite E1, E2.
    destruct a0; destruct d0; try discriminate; eexists; reflexivity. }
  destruct Hne as [acts2 Hr2].
  destruct (revert_exact pr tip' acts2 Wr Nt1 Hr2) as [t2 [Hp2 [_ Hm2]]].
  exists acts2, t2. split; [exact Hr2|]. split; [exact Hp2|].
  intros x. rewrite Hm2, Hm1. unfold pr. simpl. rewrite !mem_filter.
  destruct (mem x tip) eqn:Et; simpl.
  - rewrite andb_true_r.
    destruct (mem x (pdiff p)) eqn:Ed; simpl.
    + rewrite orb_true_r. reflexivity.
    + rewrite orb_false_r. destruct (mem x (pdel p)); reflexivity.
  - rewrite andb_false_r, orb_false_r, andb_true_r.
    destruct (mem x (pdel p)); reflexivity.
Qed.

(* A commit log that replays on the base snapshot, and that PatchOfPath
   accepts, yields a well-formed patch whose view is the replayed snapshot.
   (PatchOfPath can refuse a replayable log: re-adding a base object the patch
   deleted, as a revert of a delete does, is answered with ErrExists.) *)
Lemma patch_tracks_snapshot p s a s' p' :
  wf_patch p = true -> (forall x, mem x s = mem x (pview p)) ->
  play1 s a = Some s' -> pplay1 p a = Some p' ->
  wf_patch p' = true /\ pbase p' = pbase p /\ forall x, mem x s' = mem x (pview p').
Proof.
  intros W Hv H HP. destruct (wf_parts p W) as [Nb [Nd [Nx [Dj Sub]]]].
  destruct a as [i|i]; simpl in H, HP.
  - destruct (mem i s) eqn:Es; [discriminate|]. inversion H; subst; clear H.
    unfold padd in HP. destruct (mem i (pbase p)) eqn:Eb; [discriminate|].
    destruct (mem i (pdiff p)) eqn:Ed; [discriminate|]. inversion HP; subst; clear HP.
    split; [|split; [reflexivity|]].
    + unfold wf_patch. simpl. rewrite Nb, Nx. simpl.
      rewrite forallb_app, Dj, Sub. simpl. rewrite Eb. simpl.
      rewrite !andb_true_r.
      apply nodup_app; [exact Nd | reflexivity |].
      intros x Hx. rewrite mem_cons. destruct (Nat.eqb_spec x i) as [->|N]; [congruence | reflexivity].
    + intros x. rewrite mem_app, Hv, !mem_pview. simpl. rewrite mem_app. rewrite mem_cons. simpl.
      rewrite orb_false_r. rewrite orb_assoc. reflexivity.
  - destruct (mem i s) eqn:Es; [|discriminate]. inversion H; subst; clear H.
    rewrite Hv, mem_pview in Es.
    unfold pdelete in HP. destruct (mem i (pdiff p)) eqn:Ed.
    + inversion HP; subst; clear HP. split; [|split; [reflexivity|]].
      * unfold wf_patch. simpl. rewrite Nb, Nx, Sub. simpl. unfold remove1.
        rewrite (nodup_filter _ _ Nd). simpl. rewrite andb_true_r.
        apply forallb_forall. intros x Hx. apply filter_In in Hx as [Hx _].
        rewrite forallb_forall in Dj. apply Dj. exact Hx.
      * intros x. rewrite mem_remove1, Hv, !mem_pview. simpl. rewrite mem_remove1.
        destruct (Nat.eqb_spec x i) as [->|N]; simpl; [|rewrite !andb_true_r; reflexivity].
        rewrite !andb_false_r, orb_false_r.
        pose proof (forallb_mem _ _ _ Dj Ed) as F. simpl in F. apply negb_true_iff in F. rewrite F. reflexivity.
    + destruct (mem i (pbase p)) eqn:Eb; simpl in HP; [|discriminate].
      inversion HP; subst; clear HP. rewrite orb_false_r in Es. simpl in Es.
      apply negb_true_iff in Es.
      split; [|split; [reflexivity|]].
      * unfold wf_patch. simpl. rewrite Nb, Nd, Dj. simpl.
        rewrite forallb_app, Sub. simpl. rewrite Eb. simpl. rewrite !andb_true_r.
        apply nodup_app; [exact Nx | reflexivity |].
        intros x Hx. rewrite mem_cons. destruct (Nat.eqb_spec x i) as [->|N]; [congruence | reflexivity].
      * intros x. rewrite mem_remove1, Hv, !mem_pview. simpl. rewrite mem_app, mem_cons. simpl.
        rewrite orb_false_r.
        destruct (Nat.eqb_spec x i) as [->|N]; simpl.
        -- rewrite andb_false_r, Ed. rewrite orb_true_r. simpl. rewrite andb_false_r. reflexivity.
        -- rewrite andb_true_r, orb_false_r. reflexivity.
Qed.

Theorem replayable_log_patch : forall acts p s s' p',
  wf_patch p = true -> (forall x, mem x s = mem x (pview p)) ->
  play s acts = Some s' -> pplay p acts = Some p' ->
  wf_patch p' = true /\ pbase p' = pbase p /\ forall x, mem x s' = mem x (pview p').
Proof.
  induction acts as [|a r IH]; intros p s s' p' W Hv H HP; simpl in H, HP.
  - inversion H; inversion HP; subst. split; [exact W|]. split; [reflexivity | exact Hv].
  - destruct (play1 s a) as [s1|] eqn:E1; [|discriminate].
    destruct (pplay1 p a) as [p1|] eqn:E2; [|discriminate].
    destruct (patch_tracks_snapshot _ _ _ _ _ W Hv E1 E2) as [W1 [B1 V1]].
    destruct (IH _ _ _ _ W1 V1 H HP) as [W2 [B2 V2]].
    split; [exact W2|]. split; [congruence | exact V2].
Qed.

(* non-vacuity: a concrete merge and a concrete revert *)
Example merge_example :
  let base := [1; 2; 3] in
  let parent := {| pbase := base; pdiff := [4]; pdel := [1] |} in
  let child := {| pbase := base; pdiff := [5]; pdel := [2] |} in
  wf_patch parent = true /\ wf_patch child = true /\
  diff parent child = Some [ADel 2; AAdd 5] /\
  play (pview parent) [ADel 2; AAdd 5] = Some [3; 4; 5] /\
  (* both sides deleted object 1: conflict *)
  diff parent {| pbase := base; pdiff := []; pdel := [1] |} = None.
Proof. vm_compute. repeat split. Qed.
