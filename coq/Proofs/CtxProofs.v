(* Canonicity of the context's type table under arbitrary histories. *)
From Coq Require Import ZifyN ZifyNat ZifyBool Permutation.
From ZV Require Import Base.Prelude Base.Types Base.TypeValue Base.TypeOrder Model.Ctx
     Proofs.TypeValueProofs.
Local Open Scope N_scope.

(* ---------------------------------------------------------------- association lists *)
Lemma bytes_eqb_refl k : bytes_eqb k k = true.
Proof. apply bytes_eqb_eq. reflexivity. Qed.

Lemma bytes_eqb_false k k' : k <> k' -> bytes_eqb k k' = false.
Proof.
  intros H. destruct (bytes_eqb k k') eqn:E; auto. apply bytes_eqb_eq in E. contradiction.
Qed.

Lemma assoc_cons {A} k k' (v : A) l :
  assoc k ((k', v) :: l) = if bytes_eqb k k' then Some v else assoc k l.
Proof. reflexivity. Qed.

Lemma assocN_cons {A} k k' (v : A) l :
  assocN k ((k', v) :: l) = if k =? k' then Some v else assocN k l.
Proof. reflexivity. Qed.

Lemma NoDup_app_snoc {A} (l : list A) x : NoDup l -> ~ In x l -> NoDup (l ++ [x]).
Proof.
  intros ND NI. apply (Permutation_NoDup (Permutation_cons_append l x)). constructor; auto.
Qed.

(* ---------------------------------------------------------------- part 1: no two ids denote the same structure,
   for every history of atomic steps, including LookupByValue's alias step
   with arbitrary bytes, and with no assumption on the requested types *)
Inductive atom :=
| AEnter (t : ty)               (* one LookupType* critical section *)
| AAlias (tv : bytes) (id : N). (* the tail of LookupByValue *)

Definition step (c : ctx) (a : atom) : ctx :=
  match a with
  | AEnter t => fst (lookup1 c t)
  | AAlias tv id => alias c tv id
  end.

Definition run (c : ctx) (l : list atom) : ctx := fold_left step l c.

Definition keyed (c : ctx) : Prop :=
  forall t, In t (types c) -> assoc (encode t) (toType c) <> None.

(* the value stored for a table id is the serialization of its structure *)
Definition valued (c : ctx) : Prop :=
  forall i t, nth_error (types c) i = Some t ->
              assocN (30 + N.of_nat i) (toValue c) = Some (encode t).

Definition Inv1 (c : ctx) : Prop := NoDup (types c) /\ keyed c /\ valued c.

Lemma Inv1_empty : Inv1 empty.
Proof. split; [constructor | split; [intros t [] | intros [|i] t H; discriminate]]. Qed.

Lemma Inv1_step c a : Inv1 c -> Inv1 (step c a).
Proof.
  intros (ND & K & V). destruct a as [t|tv id]; cbn [step].
  - unfold lookup1. destruct (assoc (encode t) (toType c)) as [id|] eqn:A; cbn [fst].
    + repeat split; assumption.
    + destruct (rejects t); cbn [fst]; [repeat split; assumption|].
      unfold Inv1, keyed, valued, enter; cbn [types toType toValue]. split; [|split].
      * apply NoDup_app_snoc; auto. intros Hin. apply (K t Hin). exact A.
      * intros t' Hin. apply in_app_or in Hin as [Hin|[->|[]]].
        -- rewrite assoc_cons. destruct (bytes_eqb (encode t') (encode t)); [discriminate|]. apply K. exact Hin.
        -- rewrite assoc_cons, bytes_eqb_refl. discriminate.
      * intros i t0 Hi. rewrite assocN_cons. unfold next_id.
        destruct (Nat.lt_ge_cases i (List.length (types c))) as [Hlt|Hge].
        -- rewrite nth_error_app1 in Hi by exact Hlt.
           replace (30 + N.of_nat i =? 30 + N.of_nat (List.length (types c))) with false by lia.
           apply V. exact Hi.
        -- rewrite nth_error_app2 in Hi by exact Hge.
           destruct (i - List.length (types c))%nat as [|m] eqn:Em; simpl in Hi;
             [|destruct m; simpl in Hi; discriminate].
           inversion Hi; subst t0.
           replace (30 + N.of_nat i =? 30 + N.of_nat (List.length (types c))) with true by lia. reflexivity.
  - unfold Inv1, keyed, valued, alias; cbn [types toType toValue]. split; [exact ND|]. split.
    + intros t Hin. rewrite assoc_cons.
      destruct (bytes_eqb (encode t) tv); [discriminate | apply K; exact Hin].
    + intros i t Hi. pose proof (V i t Hi) as Vi.
      destruct (assocN id (toValue c)) as [old|] eqn:Aid; [exact Vi|].
      rewrite assocN_cons. destruct (30 + N.of_nat i =? id) eqn:E; [|exact Vi].
      apply N.eqb_eq in E. subst id. rewrite Vi in Aid. discriminate.
Qed.

Lemma Inv1_run : forall l c, Inv1 c -> Inv1 (run c l).
Proof.
  unfold run. induction l as [|a l IH]; intros c H; simpl; auto. apply IH. apply Inv1_step. exact H.
Qed.

Theorem no_duplicate_types : forall l, Inv1 (run empty l).
Proof. intros l. apply Inv1_run. apply Inv1_empty. Qed.

(* interleavings: any merge of the threads' atom sequences is just a history *)
Inductive interleave {A} : list (list A) -> list A -> Prop :=
| il_nil : forall ths, Forall (fun th => th = []) ths -> interleave ths []
| il_step : forall pre a th post l,
    interleave (pre ++ th :: post) l -> interleave (pre ++ (a :: th) :: post) (a :: l).

Theorem no_duplicate_types_concurrent : forall threads l,
  interleave threads l -> NoDup (types (run empty l)).
Proof. intros threads l _. apply no_duplicate_types. Qed.

(* the table only grows at its end *)
Lemma step_prefix c a : exists ext, types (step c a) = types c ++ ext.
Proof.
  destruct a as [t|tv id]; cbn [step].
  - unfold lookup1. destruct (assoc (encode t) (toType c)); cbn [fst types].
    + exists []. rewrite app_nil_r. reflexivity.
    + destruct (rejects t); cbn [fst].
      * exists []. rewrite app_nil_r. reflexivity.
      * exists [t]. reflexivity.
  - exists []. rewrite app_nil_r. reflexivity.
Qed.

Lemma run_prefix : forall l c, exists ext, types (run c l) = types c ++ ext.
Proof.
  unfold run. induction l as [|a l IH]; intros c; simpl.
  - exists []. rewrite app_nil_r. reflexivity.
  - destruct (step_prefix c a) as [e1 E1]. destruct (IH (step c a)) as [e2 E2].
    exists (e1 ++ e2). rewrite E2, E1, app_assoc. reflexivity.
Qed.

Lemma run_app c l1 l2 : run c (l1 ++ l2) = run (run c l1) l2.
Proof. unfold run. apply fold_left_app. Qed.

(* The type value stored for an id is the serialization of the id's structure
   and stays so forever - after ANY history of atomic steps (LookupByValue's
   map updates with arbitrary bytes and ids included) continued by ANY other. *)
Theorem type_value_pure_and_stable_atoms : forall l1 l2 i t,
  nth_error (types (run empty l1)) i = Some t ->
  assocN (30 + N.of_nat i) (toValue (run empty l1)) = Some (encode t) /\
  nth_error (types (run empty (l1 ++ l2))) i = Some t /\
  assocN (30 + N.of_nat i) (toValue (run empty (l1 ++ l2))) = Some (encode t).
Proof.
  intros l1 l2 i t Hi.
  destruct (no_duplicate_types l1) as (_ & _ & V1).
  destruct (no_duplicate_types (l1 ++ l2)) as (_ & _ & V2).
  assert (Hi2 : nth_error (types (run empty (l1 ++ l2))) i = Some t).
  { rewrite run_app. destruct (run_prefix l2 (run empty l1)) as [ext E]. rewrite E.
    rewrite nth_error_app1; [exact Hi | apply nth_error_Some; congruence]. }
  split; [apply V1; exact Hi|]. split; [exact Hi2 | apply V2; exact Hi2].
Qed.

(* ---------------------------------------------------------------- every operation of the model is a sequence of atomic steps *)
Definition reach (c c' : ctx) : Prop := exists l, c' = run c l.

Lemma reach_refl c : reach c c.
Proof. exists []. reflexivity. Qed.

Lemma reach_trans a b c : reach a b -> reach b c -> reach a c.
Proof. intros [l1 ->] [l2 ->]. exists (l1 ++ l2). symmetry. apply run_app. Qed.

Lemma lookup1_reach c t : reach c (fst (lookup1 c t)).
Proof. exists [AEnter t]. reflexivity. Qed.

Lemma finish_reach c t : reach c (fst (finish c t)).
Proof.
  unfold finish. pose proof (lookup1_reach c t) as R. destruct (lookup1 c t) as [c' o]. exact R.
Qed.

Lemma build_list_reach bf l :
  Forall (fun s => forall c, reach c (fst (bf c s))) l ->
  forall c, reach c (fst (build_list bf c l)).
Proof.
  induction 1 as [|s r Hs _ IH]; intros c; simpl; [apply reach_refl|].
  specialize (Hs c). destruct (bf c s) as [c1 [[t id]|]]; simpl in *; [|exact Hs].
  specialize (IH c1). destruct (build_list bf c1 r) as [c2 o2]. simpl in *.
  eapply reach_trans; eauto.
Qed.

Lemma build_fields_reach bf (l : list (bytes * ty)) :
  Forall (fun f => forall c, reach c (fst (bf c (snd f)))) l ->
  forall c, reach c (fst (build_fields bf c l)).
Proof.
  induction 1 as [|s r Hs _ IH]; intros c; simpl; [apply reach_refl|].
  specialize (Hs c). destruct (bf c (snd s)) as [c1 [[t id]|]]; simpl in *; [|exact Hs].
  specialize (IH c1). destruct (build_fields bf c1 r) as [c2 o2]. simpl in *.
  eapply reach_trans; eauto.
Qed.

Lemma build_reach : forall s c, reach c (fst (build c s)).
Proof.
  induction s using ty_ind'; intros c; cbn [build].
  - apply reach_refl.
  - pose proof (build_fields_reach (fun c s => build c s) fs H c) as R.
    destruct (build_fields (fun c s => build c s) c fs) as [c1 [ts|]]; simpl in *; [|exact R].
    eapply reach_trans; [exact R | apply finish_reach].
  - specialize (IHs c). destruct (build c s) as [c1 [[t id]|]]; simpl in *; [|exact IHs].
    eapply reach_trans; [exact IHs | apply finish_reach].
  - specialize (IHs c). destruct (build c s) as [c1 [[t id]|]]; simpl in *; [|exact IHs].
    eapply reach_trans; [exact IHs | apply finish_reach].
  - specialize (IHs1 c). destruct (build c s1) as [c1 [[t id]|]]; simpl in *; [|exact IHs1].
    specialize (IHs2 c1). destruct (build c1 s2) as [c2 [[t2 id2]|]]; simpl in *.
    + eapply reach_trans; [exact IHs1|]. eapply reach_trans; [exact IHs2 | apply finish_reach].
    + eapply reach_trans; eauto.
  - pose proof (build_list_reach (fun c s => build c s) ts H c) as R.
    destruct (build_list (fun c s => build c s) c ts) as [c1 [l|]]; simpl in *; [|exact R].
    eapply reach_trans; [exact R | apply finish_reach].
  - apply finish_reach.
  - specialize (IHs c). destruct (build c s) as [c1 [[t id]|]]; simpl in *; [|exact IHs].
    eapply reach_trans; [exact IHs | apply finish_reach].
  - specialize (IHs c). destruct (build c s) as [c1 [[t id]|]]; simpl in *; [|exact IHs].
    destruct (is_prim_name n); simpl; [exact IHs|].
    eapply reach_trans; [exact IHs | apply finish_reach].
  - apply reach_refl.
Qed.

Lemma do_op_reach c o : reach c (fst (do_op c o)).
Proof.
  destruct o as [t|b|b]; cbn [do_op].
  - pose proof (build_reach t c) as R. destruct (build c t) as [c' r]. exact R.
  - destruct (assoc b (toType c)); [apply reach_refl|].
    destruct (parse_tv b) as [[s rest]|]; [|apply reach_refl].
    pose proof (build_reach s c) as R. destruct (build c s) as [c' [[t id]|]]; simpl in *; [|exact R].
    eapply reach_trans; [exact R|]. exists [AAlias b id]. reflexivity.
  - destruct (parse_tv b) as [[s rest]|]; [|apply reach_refl].
    pose proof (build_reach s c) as R. destruct (build c s) as [c' r]. exact R.
Qed.

(* a history of operations: by fields / LookupByValue, TranslateType / DecodeTypeValue *)
Definition exec (c : ctx) (ops : list op) : ctx := fold_left (fun c o => fst (do_op c o)) ops c.

Lemma exec_app c l1 l2 : exec c (l1 ++ l2) = exec (exec c l1) l2.
Proof. unfold exec. apply fold_left_app. Qed.

Lemma exec_reach : forall ops c, reach c (exec c ops).
Proof.
  induction ops as [|o r IH]; intros c; [apply reach_refl|].
  change (exec c (o :: r)) with (exec (fst (do_op c o)) r).
  eapply reach_trans; [apply do_op_reach | apply IH].
Qed.

Theorem exec_no_duplicate_types : forall ops, NoDup (types (exec empty ops)).
Proof.
  intros ops. destruct (exec_reach ops empty) as [l ->]. apply no_duplicate_types.
Qed.

(* The full statement for the model of the context: whatever operations ran
   (arguments arbitrary, LookupByValue with any bytes), the stored type value
   of every id is the serialization of its structure, and whatever runs
   afterwards the id keeps its structure and its stored value. *)
Theorem type_value_pure_and_stable : forall ops1 ops2 i t,
  nth_error (types (exec empty ops1)) i = Some t ->
  assocN (30 + N.of_nat i) (toValue (exec empty ops1)) = Some (encode t) /\
  nth_error (types (exec empty (ops1 ++ ops2))) i = Some t /\
  assocN (30 + N.of_nat i) (toValue (exec empty (ops1 ++ ops2))) = Some (encode t).
Proof.
  intros ops1 ops2 i t Hi.
  destruct (exec_reach ops1 empty) as [l1 E1].
  destruct (exec_reach ops2 (exec empty ops1)) as [l2 E2].
  rewrite exec_app, E2, E1, <- run_app. rewrite E1 in Hi.
  apply type_value_pure_and_stable_atoms. exact Hi.
Qed.

(* ---------------------------------------------------------------- part 2: histories of LookupType* calls
   (creation "by fields", in any order and interleaving): ids <-> structures
   is a bijection, a lookup returns the id denoting the requested structure,
   and the stored type value of an id is the serialization of its structure
   and never changes. *)
Definition okty (t : ty) : Prop := wf t /\ noref t = true.

Definition denote (c : ctx) (id : N) : option ty :=
  if id <? 30 then None else nth_error (types c) (N.to_nat (id - 30)).

Record Canon (c : ctx) : Prop := {
  cn_ok : Forall okty (types c);
  cn_key : forall i t, nth_error (types c) i = Some t ->
                       assoc (encode t) (toType c) = Some (30 + N.of_nat i);
  cn_ent : forall k id, assoc k (toType c) = Some id -> exists t, denote c id = Some t /\ k = encode t;
  cn_val : forall i t, nth_error (types c) i = Some t ->
                       assocN (30 + N.of_nat i) (toValue c) = Some (encode t)
}.

Definition extends (c c' : ctx) : Prop :=
  forall id t, denote c id = Some t ->
               denote c' id = Some t /\ assocN id (toValue c') = assocN id (toValue c).

Lemma extends_refl c : extends c c.
Proof. intros id t H. auto. Qed.

Lemma extends_trans a b c : extends a b -> extends b c -> extends a c.
Proof.
  intros H1 H2 id t H. destruct (H1 id t H) as [D1 V1]. destruct (H2 id t D1) as [D2 V2].
  split; congruence.
Qed.

Lemma Canon_empty : Canon empty.
Proof.
  split; simpl.
  - constructor.
  - intros [|i] t H; discriminate.
  - intros k id H. discriminate.
  - intros [|i] t H; discriminate.
Qed.

Lemma denote_nth c i t : nth_error (types c) i = Some t -> denote c (30 + N.of_nat i) = Some t.
Proof.
  intros H. unfold denote. replace (30 + N.of_nat i <? 30) with false by lia.
  replace (N.to_nat (30 + N.of_nat i - 30)) with i by lia. exact H.
Qed.

Lemma denote_inv c id t : denote c id = Some t ->
  exists i, id = 30 + N.of_nat i /\ nth_error (types c) i = Some t.
Proof.
  unfold denote. destruct (id <? 30) eqn:E; [discriminate|]. intros H.
  exists (N.to_nat (id - 30)). split; [lia | exact H].
Qed.

Lemma denote_okty c id t : Canon c -> denote c id = Some t -> okty t.
Proof.
  intros C H. apply denote_inv in H as (i & _ & H). apply nth_error_In in H.
  pose proof (cn_ok c C) as F. rewrite Forall_forall in F. apply F. exact H.
Qed.

Theorem ids_injective c a b t : Canon c -> denote c a = Some t -> denote c b = Some t -> a = b.
Proof.
  intros C Ha Hb. apply denote_inv in Ha as (i & -> & Hi). apply denote_inv in Hb as (j & -> & Hj).
  pose proof (cn_key c C i t Hi) as Ki. pose proof (cn_key c C j t Hj) as Kj.
  rewrite Ki in Kj. congruence.
Qed.

Lemma lookup1_canon c t c' r :
  Canon c -> okty t -> lookup1 c t = (c', r) ->
  Canon c' /\ extends c c' /\
  match r with
  | Some id => denote c' id = Some t /\ assocN id (toValue c') = Some (encode t)
  | None => c' = c /\ rejects t = true
  end.
Proof.
  intros C OK L. unfold lookup1 in L.
  destruct (assoc (encode t) (toType c)) as [id|] eqn:A.
  - (* hit *)
    inversion L; subst; clear L.
    assert (C' : Canon (mkctx (types c) (toType c) (toValue c) (bind c t id))).
    { destruct C as [c1 c2 c3 c4]. split; auto. }
    split; [exact C'|]. split; [intros x y H; auto|].
    destruct (cn_ent c C _ _ A) as (t' & D & E).
    assert (t = t').
    { destruct OK as [W N]. destruct (denote_okty c id t' C D) as [W' N'].
      apply encode_inj; auto. }
    subst t'. split; [exact D|].
    apply denote_inv in D as (i & -> & Hi). apply (cn_val c C i t Hi).
  - destruct (rejects t) eqn:R; inversion L; subst; clear L.
    + split; [exact C|]. split; [apply extends_refl | auto].
    + (* miss: a new id *)
      set (n := List.length (types c)).
      assert (Hid : next_id c = 30 + N.of_nat n) by reflexivity.
      assert (FRESH : forall i t0, nth_error (types c) i = Some t0 -> bytes_eqb (encode t0) (encode t) = false).
      { intros i t0 Hi. apply bytes_eqb_false. intros E.
        pose proof (cn_key c C i t0 Hi) as K. rewrite E, A in K. discriminate. }
      assert (EXT : extends c (enter c t (encode t) (next_id c))).
      { intros id t0 D. apply denote_inv in D as (i & -> & Hi).
        assert (Hlt : (i < n)%nat) by (apply nth_error_Some; congruence).
        split.
        - unfold enter. apply (denote_nth (mkctx _ _ _ _)). cbn [types].
          rewrite nth_error_app1 by exact Hlt. exact Hi.
        - unfold enter; cbn [toValue]. rewrite assocN_cons.
          replace (30 + N.of_nat i =? next_id c) with false by lia. reflexivity. }
      split; [|split; [exact EXT|]].
      * split; unfold enter; cbn [types toType toValue].
        -- apply Forall_app. split; [apply (cn_ok c C) | constructor; [exact OK | constructor]].
        -- intros i t0 Hi. rewrite assoc_cons.
           destruct (Nat.lt_ge_cases i n) as [Hlt|Hge].
           ++ rewrite nth_error_app1 in Hi by exact Hlt. rewrite (FRESH i t0 Hi).
              apply (cn_key c C i t0 Hi).
           ++ rewrite nth_error_app2 in Hi by exact Hge. fold n in Hi.
              destruct (i - n)%nat as [|m] eqn:Em; simpl in Hi; [|destruct m; simpl in Hi; discriminate].
              inversion Hi; subst t0. rewrite bytes_eqb_refl. f_equal. lia.
        -- intros k id. rewrite assoc_cons. destruct (bytes_eqb k (encode t)) eqn:Ek.
           ++ intros Hs. inversion Hs; subst id. apply bytes_eqb_eq in Ek. exists t. split; [|exact Ek].
              rewrite Hid. apply (denote_nth (mkctx _ _ _ _)). cbn [types].
              rewrite nth_error_app2 by lia. replace (n - List.length (types c))%nat with O by lia. reflexivity.
           ++ intros Hs. destruct (cn_ent c C k id Hs) as (t0 & D & E). exists t0. split; [|exact E].
              apply (EXT id t0 D).
        -- intros i t0 Hi. rewrite assocN_cons.
           destruct (Nat.lt_ge_cases i n) as [Hlt|Hge].
           ++ rewrite nth_error_app1 in Hi by exact Hlt.
              replace (30 + N.of_nat i =? next_id c) with false by lia. apply (cn_val c C i t0 Hi).
           ++ rewrite nth_error_app2 in Hi by exact Hge. fold n in Hi.
              destruct (i - n)%nat as [|m] eqn:Em; simpl in Hi; [|destruct m; simpl in Hi; discriminate].
              inversion Hi; subst t0. replace (30 + N.of_nat i =? next_id c) with true by lia. reflexivity.
      * split.
        -- rewrite Hid. apply (denote_nth (mkctx _ _ _ _)). unfold enter; cbn [types].
           rewrite nth_error_app2 by lia. replace (n - List.length (types c))%nat with O by lia. reflexivity.
        -- unfold enter; cbn [toValue]. rewrite assocN_cons, N.eqb_refl. reflexivity.
Qed.

(* a history of lookups: the requests of all goroutines in the order in which
   their critical sections happen to run *)
Fixpoint lookups (c : ctx) (l : list ty) : ctx * list (option N) :=
  match l with
  | [] => (c, [])
  | t :: r => let (c1, o) := lookup1 c t in let (c2, os) := lookups c1 r in (c2, o :: os)
  end.

Definition answered (c : ctx) (t : ty) (o : option N) : Prop :=
  match o with
  | Some id => denote c id = Some t /\ assocN id (toValue c) = Some (encode t)
  | None => rejects t = true
  end.

Lemma answered_extends c c' t o : extends c c' -> answered c t o -> answered c' t o.
Proof.
  intros E. destruct o as [id|]; simpl; auto. intros [D V]. destruct (E id t D) as [D' V'].
  split; congruence.
Qed.

Theorem lookups_canon : forall l c, Canon c -> Forall okty l ->
  Canon (fst (lookups c l)) /\ extends c (fst (lookups c l)) /\
  Forall2 (answered (fst (lookups c l))) l (snd (lookups c l)).
Proof.
  induction l as [|t r IH]; intros c C OK; simpl.
  - split; [exact C|]. split; [apply extends_refl | constructor].
  - inversion OK as [|? ? OKt OKr]; subst.
    destruct (lookup1 c t) as [c1 o] eqn:L.
    destruct (lookup1_canon c t c1 o C OKt L) as (C1 & E1 & A1).
    destruct (IH c1 C1 OKr) as (C2 & E2 & A2).
    destruct (lookups c1 r) as [c2 os] eqn:Ls. simpl in *.
    split; [exact C2|]. split; [eapply extends_trans; eauto|].
    constructor; [|exact A2].
    apply (answered_extends c1 c2); auto.
    destruct o as [id|]; simpl; [exact A1 | destruct A1; auto].
Qed.

Lemma Forall2_nth {A B} (P : A -> B -> Prop) la lb :
  Forall2 P la lb -> forall k a b, nth_error la k = Some a -> nth_error lb k = Some b -> P a b.
Proof.
  induction 1 as [|x y la' lb' Hxy _ IH]; intros k a b H1 H2; destruct k; simpl in *; try discriminate.
  - inversion H1; inversion H2; subst. exact Hxy.
  - eapply IH; eauto.
Qed.

(* same structure <=> same id, whatever the order of creation *)
Theorem same_structure_same_id : forall l i j ti tj a b,
  Forall okty l ->
  nth_error l i = Some ti -> nth_error l j = Some tj ->
  nth_error (snd (lookups empty l)) i = Some (Some a) ->
  nth_error (snd (lookups empty l)) j = Some (Some b) ->
  (a = b <-> ti = tj).
Proof.
  intros l i j ti tj a b OK Hi Hj Ha Hb.
  destruct (lookups_canon l empty Canon_empty OK) as (C & _ & F).
  pose proof (fun k t o => Forall2_nth _ l (snd (lookups empty l)) F k t o) as G.
  destruct (G i ti (Some a) Hi Ha) as [Da _]. destruct (G j tj (Some b) Hj Hb) as [Db _].
  split.
  - intros ->. congruence.
  - intros ->. eapply ids_injective; eauto.
Qed.

(* ... hence also for every interleaving of the goroutines' request sequences *)
Theorem same_structure_same_id_concurrent : forall threads l i j ti tj a b,
  interleave threads l -> Forall okty l ->
  nth_error l i = Some ti -> nth_error l j = Some tj ->
  nth_error (snd (lookups empty l)) i = Some (Some a) ->
  nth_error (snd (lookups empty l)) j = Some (Some b) ->
  (a = b <-> ti = tj).
Proof. intros threads l i j ti tj a b _. apply same_structure_same_id. Qed.

(* the type value stored for an id is the serialization of its structure, and
   later lookups never change it *)
Theorem type_value_pure_and_stable_lookups : forall l1 l2 id t,
  Forall okty l1 -> Forall okty l2 ->
  let c1 := fst (lookups empty l1) in
  let c2 := fst (lookups c1 l2) in
  denote c1 id = Some t ->
  assocN id (toValue c1) = Some (encode t) /\ denote c2 id = Some t /\ assocN id (toValue c2) = Some (encode t).
Proof.
  intros l1 l2 id t OK1 OK2 c1 c2 D.
  destruct (lookups_canon l1 empty Canon_empty OK1) as (C1 & _ & _). fold c1 in C1.
  destruct (lookups_canon l2 c1 C1 OK2) as (C2 & E2 & _). fold c2 in C2, E2.
  assert (V1 : assocN id (toValue c1) = Some (encode t)).
  { apply denote_inv in D as (i & -> & Hi). apply (cn_val c1 C1 i t Hi). }
  destruct (E2 id t D) as [D2 V2]. repeat split; congruence.
Qed.

(* regression witness of the repaired defect: non-canonical bytes no longer replace the stored value *)
Example lookup_by_value_keeps_canonical_value :
  let c := fst (do_op empty (OValue [34; 2; 25; 9])) in
  snd (do_op empty (OValue [34; 2; 25; 9])) = Some 30 /\
  assocN 30 (toValue c) = Some (encode (TUnion [TPrim 9; TPrim 25])).
Proof. vm_compute. split; reflexivity. Qed.

Example okty_example : okty (TUnion [TPrim 9; TNamed [102] (TArray (TPrim 25))]).
Proof.
  split; [|reflexivity]. constructor; [vm_compute; discriminate|]. repeat constructor.
Qed.
