(* C06: sorting with run-splitting + k-way merge = the stable sort, for every
   placement of the run boundaries; k-way merging of sorted inputs yields a
   sorted permutation. *)
From Coq Require Import Sorting.Permutation Sorting.Sorted.
From ZV Require Import Base.Prelude Base.Num Model.Order Model.Sort.
Local Open Scope Z_scope.

(* ---- facts that need no order axioms *)
Section Basic.
  Context {A : Type}.
  Variable ltb : A -> A -> bool.

  Lemma In_insert x y l : In y (insert ltb x l) <-> y = x \/ In y l.
  Proof.
    induction l as [|z l IH]; simpl.
    - intuition congruence.
    - destruct (ltb z x); simpl; rewrite ?IH; intuition congruence.
  Qed.

  Lemma In_stable_sort y l : In y (stable_sort ltb l) <-> In y l.
  Proof.
    induction l as [|z l IH]; simpl; [tauto|].
    rewrite In_insert, IH. intuition congruence.
  Qed.

  Lemma stable_sort_nil_inv l : stable_sort ltb l = [] -> l = [].
  Proof.
    destruct l as [|z l]; [reflexivity|]. intros H.
    assert (Hin : In z (stable_sort ltb (z :: l))) by (apply In_stable_sort; left; reflexivity).
    rewrite H in Hin. contradiction.
  Qed.

  Lemma stable_sort_app_cons x l1 : forall l2,
    (forall y, In y l1 -> ltb x y = true) ->
    (forall y, In y l2 -> ltb y x = false) ->
    stable_sort ltb (l1 ++ x :: l2) = x :: stable_sort ltb (l1 ++ l2).
  Proof.
    induction l1 as [|y l1 IH]; intros l2 H1 H2; simpl.
    - destruct (stable_sort ltb l2) as [|h t] eqn:E; simpl; [reflexivity|].
      rewrite (H2 h); [reflexivity|].
      apply (In_stable_sort h l2). rewrite E. left; reflexivity.
    - rewrite IH; [|intros; apply H1; right; assumption|assumption].
      simpl. rewrite (H1 y) by (left; reflexivity). reflexivity.
  Qed.

  Lemma length_insert x l : List.length (insert ltb x l) = S (List.length l).
  Proof.
    induction l as [|z l IH]; simpl; [reflexivity|].
    destruct (ltb z x); simpl; rewrite ?IH; reflexivity.
  Qed.

  Lemma Permutation_insert x l : Permutation (insert ltb x l) (x :: l).
  Proof.
    induction l as [|z l IH]; simpl; [reflexivity|].
    destruct (ltb z x); [|reflexivity].
    rewrite IH. apply perm_swap.
  Qed.

  Theorem stable_sort_perm l : Permutation (stable_sort ltb l) l.
  Proof.
    induction l as [|z l IH]; simpl; [constructor|].
    rewrite Permutation_insert. constructor. assumption.
  Qed.
End Basic.

Lemma stable_sort_ext {A} (f g : A -> A -> bool) l :
  (forall a b, In a l -> In b l -> f a b = g a b) ->
  stable_sort f l = stable_sort g l.
Proof.
  induction l as [|x l IH]; intros H; simpl; [reflexivity|].
  rewrite <- IH by (intros; apply H; right; assumption).
  assert (Hins : forall s, (forall y, In y s -> In y l) -> insert f x s = insert g x s).
  { induction s as [|y s IHs]; intros Hs; simpl; [reflexivity|].
    rewrite (H y x) by (simpl; auto using in_eq; right; apply Hs; left; reflexivity).
    rewrite IHs by (intros; apply Hs; right; assumption). reflexivity. }
  apply Hins. intros y Hy. apply (In_stable_sort f y l). assumption.
Qed.

(* ---- the order axioms: [ltb] is a strict weak order on the domain [D]
   (exactly the contract of the less function of sort.SliceStable) *)
Section Ordered.
  Context {A : Type}.
  Variable ltb : A -> A -> bool.
  Variable D : A -> Prop.
  Hypothesis Hirr : forall x, D x -> ltb x x = false.
  Hypothesis Hasym : forall x y, D x -> D y -> ltb x y = true -> ltb y x = false.
  Hypothesis Hlt_le : forall x y z, D x -> D y -> D z ->
      ltb x y = true -> ltb z y = false -> ltb x z = true.
  Hypothesis Hle_le : forall x y z, D x -> D y -> D z ->
      ltb y x = false -> ltb z y = false -> ltb z x = false.

  Notation ssort := (stable_sort ltb).
  Definition le (x y : A) : Prop := ltb y x = false.

  (* the head of a sorted run is a least element of the run, the first such *)
  Lemma ssort_head r : Forall D r -> forall x s,
    ssort r = x :: s ->
    exists r1 r2, r = r1 ++ x :: r2 /\
                  (forall y, In y r1 -> ltb x y = true) /\
                  (forall y, In y r2 -> ltb y x = false) /\
                  s = ssort (r1 ++ r2).
  Proof.
    induction r as [|y r IH]; intros Dr x s E; simpl in E; [discriminate|].
    inversion Dr as [|? ? Dy Dr']; subst.
    destruct (ssort r) as [|z s''] eqn:Er.
    - apply stable_sort_nil_inv in Er. subst. simpl in E. inversion E; subst.
      exists [], []. simpl. repeat split; intros; contradiction.
    - destruct (IH Dr' z s'' eq_refl) as [r1 [r2 [Hr [H1 [H2 Hs]]]]].
      assert (Dz : D z).
      { rewrite Forall_forall in Dr'. apply Dr'. rewrite Hr. apply in_or_app. right. left. reflexivity. }
      simpl in E. destruct (ltb z y) eqn:Lzy; inversion E; subst x s; clear E.
      + exists (y :: r1), r2. rewrite Hr. simpl. repeat split.
        * intros w [Hw|Hw]; [subst; assumption | apply H1; assumption].
        * assumption.
        * rewrite Hs. reflexivity.
      + exists [], r. simpl. repeat split.
        * intros w Hw. contradiction.
        * intros w Hw.
          assert (Dw : D w) by (rewrite Forall_forall in Dr'; apply Dr'; assumption).
          rewrite Hr in Hw. apply in_app_or in Hw. destruct Hw as [Hw|[Hw|Hw]].
          -- apply (Hle_le y z w); auto.
          -- subst. assumption.
          -- apply (Hle_le y z w); auto.
        * symmetry. exact Er.
  Qed.

  Definition all_in (rs : list (list A)) : Prop := Forall (Forall D) rs.

  Lemma all_in_concat rs : all_in rs -> Forall D (List.concat rs).
  Proof.
    induction 1 as [|r rs Hr _ IH]; simpl; [constructor|].
    apply Forall_app. split; assumption.
  Qed.

  Lemma pop_min_spec rs : all_in rs ->
    match pop_min ltb (map ssort rs) with
    | None => List.concat rs = []
    | Some (x, S') =>
      exists l1 l2 rs',
        List.concat rs = l1 ++ x :: l2 /\
        (forall z, In z l1 -> ltb x z = true) /\
        (forall z, In z l2 -> ltb z x = false) /\
        List.concat rs' = l1 ++ l2 /\
        S' = map ssort rs' /\ all_in rs' /\ D x
    end.
  Proof.
    induction rs as [|r rs IH]; intros Hall; simpl; [reflexivity|].
    inversion Hall as [|? ? Dr Hall']; subst. specialize (IH Hall').
    pose proof (all_in_concat rs Hall') as Dcat.
    destruct (ssort r) as [|x s] eqn:Er.
    - apply stable_sort_nil_inv in Er. subst r. simpl.
      destruct (pop_min ltb (map ssort rs)) as [[y rs'']|]; [|assumption].
      destruct IH as [l1 [l2 [rs' [Hc [H1 [H2 [Hc' [HS [Hall'' Dy]]]]]]]]].
      exists l1, l2, ([] :: rs'). simpl. repeat split; try assumption.
      + rewrite HS. reflexivity.
      + constructor; [constructor | assumption].
    - destruct (ssort_head r Dr x s Er) as [r1 [r2 [Hr [H1 [H2 Hs]]]]].
      assert (Dx : D x).
      { rewrite Forall_forall in Dr. apply Dr. rewrite Hr. apply in_or_app. right. left. reflexivity. }
      assert (Dr12 : Forall D (r1 ++ r2)).
      { rewrite Hr in Dr. apply Forall_app in Dr. destruct Dr as [Da Db].
        inversion Db; subst. apply Forall_app. split; assumption. }
      destruct (pop_min ltb (map ssort rs)) as [[y rs'']|].
      + destruct IH as [m1 [m2 [rs' [Hc [M1 [M2 [Hc' [HS [Hall'' Dy]]]]]]]]].
        destruct (ltb y x) eqn:Lyx.
        * (* a later run wins: y is strictly below everything in r *)
          exists (r ++ m1), m2, (r :: rs'). simpl. repeat split; try assumption.
          -- rewrite Hc. rewrite app_assoc. reflexivity.
          -- intros z Hz. apply in_app_or in Hz. destruct Hz as [Hz|Hz]; [|apply M1; assumption].
             assert (Dz : D z) by (rewrite Forall_forall in Dr; apply Dr; assumption).
             rewrite Hr in Hz. apply in_app_or in Hz. destruct Hz as [Hz|[Hz|Hz]].
             ++ apply (Hlt_le y x z); auto.
             ++ subst. assumption.
             ++ apply (Hlt_le y x z); auto.
          -- rewrite Hc'. rewrite app_assoc. reflexivity.
          -- rewrite HS, Er. reflexivity.
          -- constructor; assumption.
        * (* the first run wins ties *)
          exists r1, (r2 ++ List.concat rs), ((r1 ++ r2) :: rs). simpl. repeat split; try assumption.
          -- rewrite Hr. rewrite <- app_assoc. reflexivity.
          -- intros z Hz. apply in_app_or in Hz. destruct Hz as [Hz|Hz]; [apply H2; assumption|].
             assert (Dz : D z) by (rewrite Forall_forall in Dcat; apply Dcat; assumption).
             rewrite Hc in Hz. apply in_app_or in Hz. destruct Hz as [Hz|[Hz|Hz]].
             ++ apply (Hle_le x y z); auto.
             ++ subst. assumption.
             ++ apply (Hle_le x y z); auto.
          -- rewrite app_assoc. reflexivity.
          -- rewrite Hs. reflexivity.
          -- constructor; assumption.
      + exists r1, (r2 ++ List.concat rs), ((r1 ++ r2) :: rs). simpl. repeat split; try assumption.
        * rewrite Hr. rewrite <- app_assoc. reflexivity.
        * intros z Hz. apply in_app_or in Hz. destruct Hz as [Hz|Hz]; [apply H2; assumption|].
          rewrite IH in Hz. contradiction.
        * rewrite app_assoc. reflexivity.
        * rewrite Hs. reflexivity.
        * constructor; assumption.
  Qed.

  Theorem merge_runs_is_stable_sort : forall n rs,
    all_in rs -> (List.length (List.concat rs) <= n)%nat ->
    merge_runs ltb n (map ssort rs) = ssort (List.concat rs).
  Proof.
    induction n as [|n IH]; intros rs Hall Hlen.
    - destruct (List.concat rs); [reflexivity | simpl in Hlen; lia].
    - simpl. pose proof (pop_min_spec rs Hall) as Hp.
      destruct (pop_min ltb (map ssort rs)) as [[x S']|].
      + destruct Hp as [l1 [l2 [rs' [Hc [H1 [H2 [Hc' [HS [Hall' Dx]]]]]]]]].
        subst S'. rewrite IH; [|assumption|].
        * rewrite Hc, Hc'. symmetry. apply stable_sort_app_cons; assumption.
        * rewrite Hc'. rewrite Hc in Hlen. rewrite app_length in *. simpl in Hlen. lia.
      + rewrite Hp. reflexivity.
  Qed.

  (* ---- the operator: any memory limit *)
  Variable runsort : list A -> list A.
  Hypothesis runsort_ok : forall r, Forall D r -> runsort r = ssort r.

  Theorem ext_sort_is_stable_sort runs :
    all_in runs -> ext_sort ltb runsort runs = ssort (List.concat runs).
  Proof.
    intros Hall. unfold ext_sort.
    replace (map runsort runs) with (map ssort runs).
    - apply merge_runs_is_stable_sort; [assumption | lia].
    - apply map_ext_in. intros r Hr. symmetry. apply runsort_ok.
      unfold all_in in Hall. rewrite Forall_forall in Hall. apply Hall. assumption.
  Qed.

  Lemma split_runs_concat mem : forall (bs : list (Z * list A)) (out : list A) nb (runs : list (list A)),
    let '(runs', out') := split_runs mem bs out nb runs in
    List.concat runs' ++ out' = List.concat runs ++ out ++ List.concat (map snd bs).
  Proof.
    induction bs as [|[sz rows] bs IH]; intros out nb runs; simpl.
    - rewrite app_nil_r. reflexivity.
    - destruct (nb + sz <? mem).
      + specialize (IH (out ++ rows) (nb + sz) runs).
        destruct (split_runs mem bs (out ++ rows) (nb + sz) runs) as [runs' out'].
        rewrite IH. rewrite <- !app_assoc. reflexivity.
      + specialize (IH [] 0 (runs ++ [out ++ rows])).
        destruct (split_runs mem bs [] 0 (runs ++ [out ++ rows])) as [runs' out'].
        rewrite IH. rewrite concat_app. simpl. rewrite !app_nil_r, <- !app_assoc. reflexivity.
  Qed.

  Theorem sort_op_is_stable_sort mem bs :
    Forall D (List.concat (map snd bs)) ->
    sort_op ltb runsort mem bs = ssort (List.concat (map snd bs)).
  Proof.
    intros HD. unfold sort_op.
    pose proof (split_runs_concat mem bs [] 0 []) as H.
    destruct (split_runs mem bs [] 0 []) as [runs out]. simpl in H.
    set (all := List.concat (map snd bs)) in *.
    destruct runs as [|r0 runs].
    - simpl in H. subst out. apply runsort_ok. assumption.
    - assert (Hall : forall rs, List.concat rs = all -> all_in rs).
      { intros rs Hc. unfold all_in. apply Forall_forall. intros r Hr.
        apply Forall_forall. intros x Hx. rewrite Forall_forall in HD. apply HD.
        rewrite <- Hc. apply in_concat. exists r. split; assumption. }
      destruct out as [|o out].
      + rewrite app_nil_r in *. rewrite ext_sort_is_stable_sort by (apply Hall; assumption).
        rewrite H. reflexivity.
      + assert (Hc : List.concat ((r0 :: runs) ++ [o :: out]) = all).
        { rewrite concat_app. simpl. rewrite app_nil_r. simpl in H. assumption. }
        rewrite ext_sort_is_stable_sort by (apply Hall; assumption).
        rewrite Hc. reflexivity.
  Qed.

  (* ---- the stable sort is sorted (the permutation part is [stable_sort_perm]) *)
  Lemma insert_sorted x l : D x -> Forall D l ->
    StronglySorted le l -> StronglySorted le (insert ltb x l).
  Proof.
    intros Dx Dl Hs. induction Hs as [|y l Hs IH Hy]; simpl.
    - constructor; constructor.
    - inversion Dl as [|? ? Dy Dl']; subst.
      destruct (ltb y x) eqn:Lyx.
      + constructor; [apply IH; assumption|].
        apply Forall_forall. intros z Hz. apply In_insert in Hz. destruct Hz as [Hz|Hz].
        * subst. unfold le. apply Hasym; assumption.
        * rewrite Forall_forall in Hy. apply Hy. assumption.
      + constructor; [constructor; assumption|].
        constructor; [exact Lyx|].
        apply Forall_forall. intros z Hz. rewrite Forall_forall in Hy, Dl'.
        unfold le. apply (Hle_le x y z); auto. apply Hy. assumption.
  Qed.

  Theorem stable_sort_sorted l : Forall D l -> StronglySorted le (ssort l).
  Proof.
    induction l as [|x l IH]; intros Dl; simpl; [constructor|].
    inversion Dl; subst. apply insert_sorted; auto.
    apply Forall_forall. intros y Hy. apply In_stable_sort in Hy.
    rewrite Forall_forall in H2. apply H2. assumption.
  Qed.

  (* stability: the values equivalent to any x keep their input order *)
  Definition eqvb (x y : A) : bool := negb (ltb x y) && negb (ltb y x).

  Lemma filter_insert x a l : D x -> D a -> Forall D l -> StronglySorted le l ->
    filter (eqvb x) (insert ltb a l) = filter (eqvb x) (a :: l).
  Proof.
    intros Dx Da Dl Hs. induction Hs as [|y l Hs IH Hy]; [reflexivity|].
    inversion Dl as [|? ? Dy Dl']; subst. simpl insert.
    destruct (ltb y a) eqn:Lya; [|reflexivity].
    (* y < a: if a ~ x then y < x, so y is not equivalent to x *)
    assert (Exy : eqvb x a = true -> eqvb x y = false).
    { intros Exa. unfold eqvb in Exa. apply andb_true_iff in Exa. destruct Exa as [E1 E2].
      apply negb_true_iff in E1.
      assert (Lyx : ltb y x = true) by (apply (Hlt_le y a x); auto).
      unfold eqvb. rewrite Lyx. apply andb_false_r. }
    change (filter (eqvb x) (y :: insert ltb a l)) with
        (if eqvb x y then y :: filter (eqvb x) (insert ltb a l) else filter (eqvb x) (insert ltb a l)).
    rewrite (IH Dl').
    change (filter (eqvb x) (a :: y :: l)) with
        (if eqvb x a then a :: filter (eqvb x) (y :: l) else filter (eqvb x) (y :: l)).
    change (filter (eqvb x) (a :: l)) with
        (if eqvb x a then a :: filter (eqvb x) l else filter (eqvb x) l).
    change (filter (eqvb x) (y :: l)) with
        (if eqvb x y then y :: filter (eqvb x) l else filter (eqvb x) l).
    destruct (eqvb x a) eqn:Exa; [rewrite (Exy eq_refl); reflexivity | reflexivity].
  Qed.

  Theorem stable_sort_stable x l : D x -> Forall D l ->
    filter (eqvb x) (ssort l) = filter (eqvb x) l.
  Proof.
    intros Dx. induction l as [|a l IH]; intros Dl; [reflexivity|].
    inversion Dl as [|? ? Da Dl']; subst. simpl ssort.
    assert (Dsl : Forall D (ssort l)).
    { apply Forall_forall. intros y Hy. apply In_stable_sort in Hy.
      rewrite Forall_forall in Dl'. apply Dl'. assumption. }
    rewrite filter_insert; auto using stable_sort_sorted.
    simpl. rewrite IH by assumption. reflexivity.
  Qed.

  (* ---- k-way merge of sorted inputs (merge operator) *)
  Lemma sorted_app_inv l1 : forall l2, StronglySorted le (l1 ++ l2) ->
    StronglySorted le l1 /\ StronglySorted le l2 /\
    (forall a b, In a l1 -> In b l2 -> le a b).
  Proof.
    induction l1 as [|x l1 IH]; intros l2 H; simpl in *.
    - repeat split; [constructor | assumption | intros; contradiction].
    - inversion H as [|? ? Hs Hx]; subst. destruct (IH l2 Hs) as [S1 [S2 Hab]].
      rewrite Forall_forall in Hx. repeat split.
      + constructor; [assumption|]. apply Forall_forall. intros y Hy. apply Hx. apply in_or_app. left. assumption.
      + assumption.
      + intros a b [Ha|Ha] Hb; [subst; apply Hx; apply in_or_app; right; assumption | apply Hab; assumption].
  Qed.

  Lemma sorted_app l1 l2 : StronglySorted le l1 -> StronglySorted le l2 ->
    (forall a b, In a l1 -> In b l2 -> le a b) -> StronglySorted le (l1 ++ l2).
  Proof.
    intros S1 S2 H. induction S1 as [|x l1 S1 IH Hx]; simpl; [assumption|].
    constructor.
    - apply IH. intros; apply H; [right|]; assumption.
    - apply Forall_app. split; [assumption|].
      apply Forall_forall. intros b Hb. apply H; [left; reflexivity | assumption].
  Qed.

  Lemma le_last p d : Forall D p -> StronglySorted le p -> forall a, In a p -> le a (last p d).
  Proof.
    intros Dp Hs. induction Hs as [|x p Hs IH Hx]; intros a Ha; [contradiction|].
    inversion Dp as [|? ? Dx Dp']; subst.
    destruct p as [|y p'].
    - simpl in *. destruct Ha as [Ha|[]]. subst. unfold le. apply Hirr. assumption.
    - change (last (x :: y :: p') d) with (last (y :: p') d).
      destruct Ha as [Ha|Ha].
      + subst. rewrite Forall_forall in Hx. apply Hx.
        clear. generalize y. induction p' as [|z p' IHp]; intros y0; simpl; [left; reflexivity|].
        right. apply IHp.
      + apply IH; assumption.
  Qed.

  Theorem kmerge_sorted_perm rs out :
    kmerge ltb rs out -> all_in rs -> Forall (StronglySorted le) rs ->
    Permutation out (List.concat rs) /\ StronglySorted le out.
  Proof.
    induction 1 as [rs Hnil | before p rest after out d Hp Hheads Hk IH]; intros Hall Hsorted.
    - rewrite Hnil. split; constructor.
    - unfold all_in in Hall. apply Forall_app in Hall. destruct Hall as [Hab Hall].
      inversion Hall as [|? ? Dpr Haa]; subst.
      apply Forall_app in Hsorted. destruct Hsorted as [Sb Hsorted].
      inversion Hsorted as [|? ? Spr Sa]; subst.
      apply Forall_app in Dpr. destruct Dpr as [Dp Drest].
      destruct (sorted_app_inv p rest Spr) as [Sp [Srest Hpr]].
      destruct IH as [Hperm Hs].
      { unfold all_in. apply Forall_app. split; [assumption|]. constructor; assumption. }
      { apply Forall_app. split; [assumption|]. constructor; assumption. }
      split.
      + rewrite Hperm. rewrite !concat_app. simpl.
        rewrite <- (app_assoc p rest).
        apply Permutation_app_swap_app.
      + apply sorted_app; [assumption | assumption |].
        intros a b Ha Hb.
        assert (Da : D a) by (rewrite Forall_forall in Dp; apply Dp; assumption).
        assert (Dl : D (last p d)).
        { rewrite Forall_forall in Dp. apply Dp. destruct p as [|x p']; [congruence|].
          clear. generalize x. induction p' as [|z p' IHp]; intros y0; simpl; [left; reflexivity|].
          right. apply IHp. }
        pose proof (le_last p d Dp Sp a Ha) as Hal.
        apply (Permutation_in _ Hperm) in Hb.
        rewrite concat_app in Hb. simpl in Hb.
        apply in_app_or in Hb. destruct Hb as [Hb|Hb]; [|apply in_app_or in Hb; destruct Hb as [Hb|Hb]].
        * (* b in a run before *)
          apply in_concat in Hb. destruct Hb as [r [Hr Hbr]].
          rewrite Forall_forall in Hab, Sb.
          pose proof (Hab r Hr) as Dr. pose proof (Sb r Hr) as Sr.
          assert (Db : D b) by (rewrite Forall_forall in Dr; apply Dr; assumption).
          destruct r as [|h t]; [contradiction|].
          assert (Dh : D h) by (inversion Dr; assumption).
          assert (Hlh : le (last p d) h).
          { apply (Hheads (h :: t) h t); [apply in_or_app; left; assumption | reflexivity]. }
          assert (Hhb : le h b).
          { destruct Hbr as [Hbr|Hbr]; [subst; unfold le; apply Hirr; assumption|].
            inversion Sr as [|? ? _ Hh]; subst. rewrite Forall_forall in Hh. apply Hh. assumption. }
          unfold le in *. apply (Hle_le a h b); auto. apply (Hle_le a (last p d) h); auto.
        * apply Hpr; assumption.
        * apply in_concat in Hb. destruct Hb as [r [Hr Hbr]].
          rewrite Forall_forall in Haa, Sa.
          pose proof (Haa r Hr) as Dr. pose proof (Sa r Hr) as Sr.
          assert (Db : D b) by (rewrite Forall_forall in Dr; apply Dr; assumption).
          destruct r as [|h t]; [contradiction|].
          assert (Dh : D h) by (inversion Dr; assumption).
          assert (Hlh : le (last p d) h).
          { apply (Hheads (h :: t) h t); [apply in_or_app; right; assumption | reflexivity]. }
          assert (Hhb : le h b).
          { destruct Hbr as [Hbr|Hbr]; [subst; unfold le; apply Hirr; assumption|].
            inversion Sr as [|? ? _ Hh]; subst. rewrite Forall_forall in Hh. apply Hh. assumption. }
          unfold le in *. apply (Hle_le a h b); auto. apply (Hle_le a (last p d) h); auto.
  Qed.
End Ordered.

(* non-vacuity of the merge relation: a whole-batch step followed by single steps *)
Example kmerge_example : kmerge Z.ltb [[1; 2; 5]; [3; 4]] [1; 2; 3; 4; 5].
Proof.
  refine (km_step Z.ltb [] [1; 2] [5] [[3; 4]] [3; 4; 5] 0 _ _ _).
  - discriminate.
  - intros r h t [Hr|[]] E; subst r; inversion E; subst; reflexivity.
  - refine (km_step Z.ltb [[5]] [3; 4] [] [] [5] 0 _ _ _).
    + discriminate.
    + intros r h t [Hr|[]] E; subst r; inversion E; subst; reflexivity.
    + refine (km_step Z.ltb [] [5] [] [[]] [] 0 _ _ _).
      * discriminate.
      * intros r h t [Hr|[]] E; subst r; inversion E.
      * apply km_done. reflexivity.
Qed.
