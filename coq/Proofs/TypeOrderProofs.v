(* CompareTypes: reflexive, and zero exactly on equal types; regression
   witnesses of the repaired named-of-named defect; the name-reference race. *)
From Coq Require Import ZifyN ZifyNat ZifyBool.
From ZV Require Import Base.Prelude Base.Types Base.TypeValue Base.TypeOrder Model.Ctx.
Local Open Scope N_scope.

Lemma cmp_f_refl : forall fuel a, cmp_f fuel a a = Eq.
Proof.
  induction fuel as [|f IH]; intros a; [reflexivity|].
  cbn [cmp_f]. rewrite ty_eqb_refl. destruct a; auto. rewrite bytes_cmp_refl. simpl. apply IH.
Qed.

Theorem cmp_refl a : cmp a a = Eq.
Proof. apply cmp_f_refl. Qed.

Definition i64 : ty := TPrim 9.
Definition str25 : ty := TPrim 25.
Definition foo : bytes := [102; 111; 111].
Definition bar : bytes := [98; 97; 114].
Definition nA : ty := TNamed foo (TNamed bar i64).   (* foo=(bar=int64) *)
Definition nB : ty := TNamed foo i64.                (* foo=int64 *)

(* regression witnesses of the repaired defect: the look-alikes are now ordered,
   and a union of them is one type whatever the listing order *)
Example cmp_lookalikes : cmp nA nB = Gt /\ cmp nB nA = Lt.
Proof. split; reflexivity. Qed.

Example union_lookalikes_canonical :
  let c1 := fst (do_op empty (OFields (TUnion [nA; nB]))) in
  snd (do_op empty (OFields (TUnion [nA; nB]))) = Some 33 /\
  snd (do_op c1 (OFields (TUnion [nB; nA]))) = Some 33.
Proof. vm_compute. split; reflexivity. Qed.

(* What is still false: a name reference is resolved through the context's
   single typedefs map.  Goroutine 1 defines foo=int64, goroutine 2 defines
   foo=string, then goroutine 1's reference to foo (three atomic steps of two
   concurrent DecodeTypeValue calls) denotes goroutine 2's type. *)
Theorem name_ref_interleaving_refuted :
  exists c1 c2 t,
    c1 = fst (build empty (TNamed foo i64)) /\
    c2 = fst (build c1 (TNamed foo str25)) /\
    option_map fst (snd (build c2 (TRef foo))) = Some t /\ t <> TNamed foo i64.
Proof.
  eexists. eexists. eexists. split; [reflexivity|]. split; [reflexivity|].
  split; [vm_compute; reflexivity | discriminate].
Qed.

Definition is_named (t : ty) : bool := match t with TNamed _ _ => true | _ => false end.

Lemma under_result a : is_named (under a) = false.
Proof. induction a; simpl; auto. Qed.

Lemma noref_under a : noref a = true -> noref (under a) = true.
Proof. induction a; simpl; auto. Qed.

Lemma depth_under a : (depth (under a) <= depth a)%nat.
Proof. induction a; simpl; auto; lia. Qed.

Lemma depth_in_list (l : list ty) x :
  In x l -> (depth x <= fold_right (fun t m => Nat.max (depth t) m) 0%nat l)%nat.
Proof.
  induction l as [|y r IH]; simpl; intros []; [subst; lia | specialize (IH H); lia].
Qed.

Lemma depth_in_fields (l : list (bytes * ty)) x :
  In x (map snd l) -> (depth x <= fold_right (fun f m => Nat.max (depth (snd f)) m) 0%nat l)%nat.
Proof.
  induction l as [|y r IH]; simpl; intros []; [subst; lia | specialize (IH H); lia].
Qed.

Lemma thenc_eq c d : thenc c d = Eq -> c = Eq /\ d = Eq.
Proof. destruct c; simpl; auto; discriminate. Qed.

Lemma lex_eq {A} (f : A -> A -> comparison) : forall la lb,
  List.length la = List.length lb ->
  (forall x y, In x la -> In y lb -> f x y = Eq -> x = y) ->
  lex f la lb = Eq -> la = lb.
Proof.
  induction la as [|x ra IH]; destruct lb as [|y rb]; simpl; intros L H E; try discriminate; auto.
  apply thenc_eq in E as [E1 E2]. f_equal.
  - apply H; auto.
  - apply IH; auto.
Qed.

Lemma fields_eq (fa fb : list (bytes * ty)) :
  map fst fa = map fst fb -> map snd fa = map snd fb -> fa = fb.
Proof.
  revert fb. induction fa as [|[n t] r IH]; destruct fb as [|[m u] r']; simpl; intros H1 H2; try discriminate; auto.
  inversion H1; inversion H2; subst. f_equal. apply IH; auto.
Qed.

Lemma forallb_map_snd (fs : list (bytes * ty)) x :
  forallb (fun f => noref (snd f)) fs = true -> In x (map snd fs) -> noref x = true.
Proof.
  intros H Hin. apply in_map_iff in Hin as (f & <- & Hf). rewrite forallb_forall in H. apply H. exact Hf.
Qed.

(* CompareTypes returns 0 only for equal types. *)
Theorem cmp_f_eq : forall fuel a b,
  (depth a < fuel)%nat -> noref a = true -> noref b = true -> cmp_f fuel a b = Eq -> a = b.
Proof.
  induction fuel as [|f IH]; intros a b Hd Sa Sb H; [lia|].
  cbn [cmp_f] in H. destruct (ty_eqb (under a) (under b)) eqn:U.
  - apply ty_eqb_true in U.
    destruct a; destruct b; try discriminate; try (simpl in U; exact U);
      try (simpl in U; rewrite ?U; reflexivity).
    (* named, named: same name, then the named types *)
    apply thenc_eq in H as [H1 H2]. apply bytes_cmp_eq in H1. subst.
    simpl in Sa, Sb, Hd. f_equal. apply IH; auto. lia.
  - exfalso. apply ty_eqb_neq in U. apply U. clear U.
    apply thenc_eq in H as [K H]. unfold kind in K.
    pose proof (noref_under a Sa) as Sua. pose proof (noref_under b Sb) as Sub.
    pose proof (depth_under a) as Dua. pose proof (under_result a) as Ra. pose proof (under_result b) as Rb.
    destruct (under a) as [x|fa|x|x|ka va|la|sa|x|na x|na];
    destruct (under b) as [y|fb|y|y|kb vb|lb|sb|y|nb y|nb];
      try discriminate; simpl in Sua, Sub, Dua.
    + apply N.compare_eq in H. congruence.
    + (* record *)
      apply thenc_eq in H as [L H]. apply thenc_eq in H as [N T].
      apply Nat.compare_eq in L. f_equal. apply fields_eq.
      * apply (lex_eq bytes_cmp); [rewrite !map_length; exact L | | exact N].
        intros x y _ _ E. apply bytes_cmp_eq. exact E.
      * apply (lex_eq (cmp_f f)); [rewrite !map_length; exact L | | exact T].
        intros x y Hx Hy E. apply IH; auto.
        -- pose proof (depth_in_fields fa x Hx). lia.
        -- apply (forallb_map_snd fa); assumption.
        -- apply (forallb_map_snd fb); assumption.
    + f_equal. apply IH; auto. lia.
    + f_equal. apply IH; auto. lia.
    + apply thenc_eq in H as [H1 H2].
      apply andb_true_iff in Sua as [S1 S2]. apply andb_true_iff in Sub as [S3 S4].
      f_equal; apply IH; auto; lia.
    + (* union *)
      apply thenc_eq in H as [L T]. apply Nat.compare_eq in L. f_equal.
      apply (lex_eq (cmp_f f)); [exact L | | exact T]. intros x y Hx Hy E.
      rewrite forallb_forall in Sua, Sub. apply IH; auto.
      pose proof (depth_in_list la x Hx). lia.
    + (* enum *)
      apply thenc_eq in H as [L T]. apply Nat.compare_eq in L. f_equal.
      apply (lex_eq bytes_cmp); [exact L | | exact T]. intros x y _ _ E. apply bytes_cmp_eq. exact E.
    + f_equal. apply IH; auto. lia.
Qed.

Theorem cmp_eq_iff a b : noref a = true -> noref b = true -> (cmp a b = Eq <-> a = b).
Proof.
  intros Sa Sb. split.
  - unfold cmp. apply cmp_f_eq; auto.
  - intros ->. apply cmp_refl.
Qed.
