From ZV Require Import Base.Prelude Model.Pruner.
Local Open Scope Z_scope.

Lemma cmp_to_Z_range c : -1 <= cmp_to_Z c <= 1.
Proof. destruct c; simpl; lia. Qed.

Lemma bytes_cmp_le_trans a b c :
  bytes_cmp a b <> Gt -> bytes_cmp b c <> Gt -> bytes_cmp a c <> Gt.
Proof.
  intros H1 H2.
  destruct (bytes_cmp a b) eqn:E1; try congruence;
  destruct (bytes_cmp b c) eqn:E2; try congruence.
  - apply bytes_cmp_eq in E1, E2. subst. rewrite bytes_cmp_refl. discriminate.
  - apply bytes_cmp_eq in E1. subst. rewrite E2. discriminate.
  - apply bytes_cmp_eq in E2. subst. rewrite E1. discriminate.
  - rewrite (bytes_cmp_lt_trans _ _ _ E1 E2). discriminate.
Qed.

Lemma cmpk_antisym a b : cmpk b a = - cmpk a b.
Proof.
  destruct a as [x|x| |], b as [y|y| |]; unfold cmpk; simpl; try reflexivity.
  - rewrite (Z.compare_antisym x y). destruct (x ?= y); reflexivity.
  - rewrite (bytes_cmp_antisym y x). destruct (bytes_cmp y x); reflexivity.
Qed.

Lemma cmpk_refl a : cmpk a a = 0.
Proof. pose proof (cmpk_antisym a a). lia. Qed.

Lemma cmpk_le_trans a b c : cmpk a b <= 0 -> cmpk b c <= 0 -> cmpk a c <= 0.
Proof.
  destruct a as [x|x| |], b as [y|y| |], c as [z|z| |]; unfold cmpk; simpl; try lia.
  - destruct (x ?= y) eqn:E1; simpl; try lia;
    destruct (y ?= z) eqn:E2; simpl; try lia; intros _ _;
    try apply Z.compare_eq in E1; try apply Z.compare_eq in E2;
    try rewrite Z.compare_lt_iff in *; subst;
    try (rewrite Z.compare_refl; simpl; lia);
    try (rewrite E2; simpl; lia); try (rewrite E1; simpl; lia).
    assert (L : x < z) by lia. rewrite <- Z.compare_lt_iff in L. rewrite L. simpl; lia.
  - intros H1 H2.
    assert (N1 : bytes_cmp x y <> Gt) by (destruct (bytes_cmp x y); simpl in *; [discriminate|discriminate|lia]).
    assert (N2 : bytes_cmp y z <> Gt) by (destruct (bytes_cmp y z); simpl in *; [discriminate|discriminate|lia]).
    pose proof (bytes_cmp_le_trans _ _ _ N1 N2) as N3.
    destruct (bytes_cmp x z); simpl; try lia. congruence.
Qed.

Lemma cmpk_lt_le_trans a b c : cmpk a b < 0 -> cmpk b c <= 0 -> cmpk a c < 0.
Proof.
  intros H1 H2.
  assert (L : cmpk a c <= 0) by (eapply cmpk_le_trans; [|exact H2]; lia).
  destruct (Z.eq_dec (cmpk a c) 0) as [E|]; [|lia].
  assert (C : cmpk c a <= 0) by (rewrite cmpk_antisym; lia).
  pose proof (cmpk_le_trans _ _ _ H2 C) as B.
  rewrite cmpk_antisym in B. lia.
Qed.

Lemma cmpk_le_lt_trans a b c : cmpk a b <= 0 -> cmpk b c < 0 -> cmpk a c < 0.
Proof.
  intros H1 H2.
  assert (L : cmpk a c <= 0) by (eapply cmpk_le_trans; [exact H1|]; lia).
  destruct (Z.eq_dec (cmpk a c) 0) as [E|]; [|lia].
  assert (C : cmpk c a <= 0) by (rewrite cmpk_antisym; lia).
  pose proof (cmpk_le_trans _ _ _ C H1) as B.
  rewrite cmpk_antisym in B. lia.
Qed.

Lemma cmpk_man_l a b : cmpk (man a) b = cmpk a b.
Proof. destruct a; reflexivity. Qed.
Lemma cmpk_man_r a b : cmpk a (man b) = cmpk a b.
Proof. destruct a, b; reflexivity. Qed.

Lemma key_eqb_cmpk a b : key_eqb a b = true -> cmpk a b = 0.
Proof.
  destruct a as [x|x| |], b as [y|y| |]; unfold cmpk; simpl; try discriminate; try reflexivity; intros E.
  - apply Z.eqb_eq in E. subst. rewrite Z.compare_refl. reflexivity.
  - apply bytes_eqb_eq in E. subst. rewrite bytes_cmp_refl. reflexivity.
Qed.

(* The language's comparisons are sound for the lake's order:
   whenever  a o b  evaluates to true, the order agrees. *)
Lemma rel_sound o a b : rel o a b = TT -> o <> ONe -> conv o (cmpk a b) = true.
Proof.
  intros H Hne.
  destruct a as [x|x| |], b as [y|y| |]; destruct o; try congruence;
    unfold rel, cmpk, tvb in *; simpl in *; try discriminate; try reflexivity;
    repeat match type of H with
    | (if ?c then _ else _) = _ => destruct c eqn:?; try discriminate
    end; try assumption; try reflexivity.
  - match goal with E : (_ =? _) = true |- _ => apply Z.eqb_eq in E; subst end.
    rewrite Z.compare_refl. reflexivity.
  - match goal with E : bytes_eqb _ _ = true |- _ => apply bytes_eqb_eq in E; subst end.
    rewrite bytes_cmp_refl. reflexivity.
Qed.

Lemma relc_sound o k c : relc o k c = TT -> o <> ONe -> conv o (cmpk k c) = true.
Proof.
  intros H Hne.
  destruct k as [x|x| |]; simpl in H; try discriminate;
    destruct c as [y|y| |]; simpl in H; try discriminate;
    try (apply rel_sound; assumption);
    try (destruct o; try congruence; try (apply rel_sound; assumption);
         unfold tvb in H; simpl in H; try discriminate; reflexivity);
    unfold tvb, cmpk in *; simpl in *;
    destruct (conv o _) eqn:E in H; try discriminate; exact E.
Qed.

Lemma rel_missing_r o a : rel o a KMissing <> TT.
Proof. destruct a, o; simpl; discriminate. Qed.
Lemma rel_missing_l o a : rel o KMissing a <> TT.
Proof. destruct a, o; simpl; discriminate. Qed.

Lemma conv_reverse o v : conv (reverse_comparator o) (- v) = conv o v.
Proof.
  destruct o; simpl; unfold Z.gtb, Z.geb, Z.ltb, Z.leb, Z.eqb;
    rewrite ?Z.compare_opp; simpl;
    destruct v; simpl; reflexivity.
Qed.

Lemma range_pred_sound o c x mn mx k :
  range_pruner_pred o c = Some x ->
  cmpk mn k <= 0 -> cmpk k mx <= 0 ->
  peval x mn mx = true ->
  conv o (cmpk k c) = true -> False.
Proof.
  intros B Hmn Hmx P C.
  destruct o; simpl in B; inversion B; subst; clear B; simpl in P, C.
  - (* == : min > c or max < c *)
    apply Z.eqb_eq in C.
    apply orb_true_iff in P as [P|P].
    + apply Z.gtb_lt in P. (* cmpk mn c > 0 *)
      assert (cmpk c mn < 0) by (rewrite cmpk_antisym; lia).
      assert (cmpk k c <= 0) by lia.
      pose proof (cmpk_le_lt_trans _ _ _ H0 H). rewrite cmpk_antisym in H1. lia.
    + apply Z.ltb_lt in P.
      assert (cmpk c k <= 0) by (rewrite cmpk_antisym; lia).
      pose proof (cmpk_le_lt_trans _ _ _ Hmx P).
      pose proof (cmpk_lt_le_trans _ _ _ H0 H). rewrite cmpk_refl in H1. lia.
  - (* k < c pruned when c <= min *)
    apply Z.leb_le in P. apply Z.ltb_lt in C.
    pose proof (cmpk_lt_le_trans _ _ _ C P).
    pose proof (cmpk_lt_le_trans _ _ _ H Hmn). rewrite cmpk_refl in H0. lia.
  - (* k <= c pruned when c < min *)
    apply Z.ltb_lt in P. apply Z.leb_le in C.
    pose proof (cmpk_le_lt_trans _ _ _ C P).
    pose proof (cmpk_lt_le_trans _ _ _ H Hmn). rewrite cmpk_refl in H0. lia.
  - (* k > c pruned when c >= max *)
    apply Z.geb_le in P. apply Z.gtb_lt in C.
    assert (cmpk c k < 0) by (rewrite cmpk_antisym; lia).
    assert (cmpk mx c <= 0) by (rewrite cmpk_antisym; lia).
    pose proof (cmpk_le_lt_trans _ _ _ H0 H).
    pose proof (cmpk_lt_le_trans _ _ _ H1 Hmx). rewrite cmpk_refl in H2. lia.
  - (* k >= c pruned when c > max *)
    apply Z.gtb_lt in P. apply Z.geb_le in C.
    assert (cmpk c k <= 0) by (rewrite cmpk_antisym; lia).
    assert (cmpk mx c < 0) by (rewrite cmpk_antisym; lia).
    pose proof (cmpk_lt_le_trans _ _ _ H0 H).
    pose proof (cmpk_lt_le_trans _ _ _ H1 Hmx). rewrite cmpk_refl in H2. lia.
Qed.

Lemma range_pred_ne o c : range_pruner_pred o c <> None -> o <> ONe.
Proof. destruct o; simpl; congruence. Qed.

Section Sound.
  Variable oth : nat -> key -> tv.

  Lemma build_sound mn mx k :
    cmpk mn k <= 0 -> cmpk k mx <= 0 ->
    forall p x, build p = Some x -> peval x mn mx = true -> eval oth p k <> TT.
  Proof.
    intros Hmn Hmx.
    induction p as [o c|o c|a IHa b IHb|a IHa b IHb|a IHa|i]; intros x B P; simpl in *.
    - intros E. assert (Hne : o <> ONe) by (apply (range_pred_ne o c); congruence).
      apply (range_pred_sound o c x mn mx k B Hmn Hmx P). apply relc_sound; assumption.
    - intros E.
      assert (Hne : reverse_comparator o <> ONe) by (apply (range_pred_ne _ c); congruence).
      assert (Hne' : o <> ONe) by (destruct o; simpl in *; congruence).
      apply (range_pred_sound _ c x mn mx k B Hmn Hmx P).
      pose proof (rel_sound _ _ _ E Hne') as R.
      rewrite <- conv_reverse in R. rewrite <- cmpk_antisym in R. exact R.
    - destruct (build a) as [l|] eqn:Ba; destruct (build b) as [r|] eqn:Bb;
        inversion B; subst; clear B.
      + simpl in P. apply orb_true_iff in P as [P|P].
        * specialize (IHa _ eq_refl P). destruct (eval oth a k); try congruence; destruct (eval oth b k); congruence.
        * specialize (IHb _ eq_refl P). destruct (eval oth a k); try congruence; destruct (eval oth b k); congruence.
      + specialize (IHa _ eq_refl P). destruct (eval oth a k); try congruence; destruct (eval oth b k); congruence.
      + specialize (IHb _ eq_refl P). destruct (eval oth a k); try congruence; destruct (eval oth b k); congruence.
    - destruct (build a) as [l|] eqn:Ba; destruct (build b) as [r|] eqn:Bb;
        inversion B; subst; clear B.
      simpl in P. apply andb_true_iff in P as [P1 P2].
      specialize (IHa _ eq_refl P1). specialize (IHb _ eq_refl P2).
      destruct (eval oth a k); try congruence; destruct (eval oth b k); congruence.
    - discriminate.
    - discriminate.
  Qed.

  (* Full statement: for every predicate, every range [mn, mx] and every value
     key k inside it (missing keys are stored as null), a "prune" verdict
     means the filter is not true of k. *)
  Theorem pruner_sound p mn mx k :
    cmpk mn k <= 0 -> cmpk k mx <= 0 ->
    prune p mn mx = true -> is_true (eval oth p k) = false.
  Proof.
    intros Hmn Hmx H. unfold prune in H.
    destruct (build p) as [x|] eqn:B; [|discriminate].
    pose proof (build_sound mn mx k Hmn Hmx p x B H) as N.
    destruct (eval oth p k); simpl; congruence.
  Qed.

  Theorem unknown_subpredicate_no_prune i mn mx : prune (POther i) mn mx = false.
  Proof. reflexivity. Qed.

  Theorem not_no_prune a mn mx : prune (PNot a) mn mx = false.
  Proof. reflexivity. Qed.

  Lemma filter_flat_map {A B} (f : A -> list B) (g : B -> bool) l :
    filter g (flat_map f l) = flat_map (fun a => filter g (f a)) l.
  Proof.
    induction l as [|a l IH]; simpl; [reflexivity|].
    rewrite filter_app, IH. reflexivity.
  Qed.

  Lemma filter_none {A} (g : A -> bool) l :
    (forall a, In a l -> g a = false) -> filter g l = [].
  Proof.
    induction l as [|a l IH]; simpl; intros H; [reflexivity|].
    rewrite (H a (or_introl eq_refl)). apply IH. intros; apply H; right; assumption.
  Qed.

  (* Scanning only the objects (or seek ranges) the pruner keeps and then
     filtering gives exactly the filtered full scan: same values, same order. *)
  Theorem pruned_scan_eq p objs :
    Forall meta_ok objs ->
    filter (fun k => is_true (eval oth p k)) (scan_pruned p objs) =
    filter (fun k => is_true (eval oth p k)) (scan_all objs).
  Proof.
    unfold scan_pruned, scan_all. intros H.
    induction H as [|o objs Ho Hobjs IH]; simpl; [reflexivity|].
    destruct (prune p (omin o) (omax o)) eqn:Pr; simpl.
    - rewrite filter_app, <- IH.
      rewrite (filter_none _ (ovals o)); [reflexivity|].
      intros k Hk. destruct (Ho k Hk) as [H1 H2].
      eapply pruner_sound; eauto.
    - rewrite !filter_app, IH. reflexivity.
  Qed.
End Sound.

(* Non-vacuity: a concrete range, key and predicate meeting the hypotheses. *)
Example pruner_sound_nonvacuous :
  let p := PAnd (PLK OLe (KInt 5)) (POther 0) in
  prune p (KInt 1) (KInt 4) = true /\ cmpk (KInt 1) (KInt 3) <= 0 /\ cmpk (KInt 3) (KInt 4) <= 0
  /\ prune p (KInt 1) (KInt 5) = false.
Proof. vm_compute. repeat split; discriminate. Qed.
