From ZV Require Import Base.Prelude Model.Service Model.Channels.

(* Whatever the interleaving of batches and channel ends of any number of
   channels, the client delivers every batch under the channel it was written
   to and every channel end, in order: the client's current channel always
   equals the server's last announced one. *)
Lemma chan_roundtrip_from cur evs :
  chan_client cur (chan_server cur evs) = map relabel evs.
Proof.
  revert cur; induction evs as [|e r IH]; intros cur; cbn [chan_server map]; [reflexivity|].
  destruct e as [ch vs|ch]; cbn [relabel].
  - destruct (Nat.eqb_spec ch cur) as [->|Hne]; cbn [app chan_client].
    + rewrite IH. reflexivity.
    + rewrite IH. reflexivity.
  - cbn [chan_client]. rewrite IH. reflexivity.
Qed.

Theorem chan_roundtrip evs : chan_client 0 (chan_server 0 evs) = map relabel evs.
Proof. apply chan_roundtrip_from. Qed.

(* a client that forgets its channel at a channel end mislabels the batches
   that follow on a channel the server has no reason to announce again *)
Fixpoint chan_client_forgetful (cur : nat) (fs : list frame) : list cev :=
  match fs with
  | [] => []
  | FChannelSet c :: r => chan_client_forgetful c r
  | FValues vs :: r => CBatch cur vs :: chan_client_forgetful cur r
  | FChannelEnd c :: r => CEnd c :: chan_client_forgetful 0 r
  | FStats :: r => chan_client_forgetful cur r
  | FError _ :: _ => []
  end.

Example forgetting_the_channel_is_wrong :
  exists evs, chan_client_forgetful 0 (chan_server 0 evs) <> map relabel evs.
Proof.
  exists [WBatch 1 [7]; WBatch 2 [8]; WEnd 1; WBatch 2 [9]]. vm_compute. discriminate.
Qed.
