From ZV Require Import Base.Prelude Model.PoolCreate.

Lemma has_parts_mono need s e : has_parts need s = true -> has_parts need (papply s e) = true.
Proof.
  unfold has_parts. rewrite !forallb_forall. intros H k Hk. specialize (H k Hk).
  destruct e; simpl; [|exact H|exact H].
  apply orb_true_iff. right. exact H.
Qed.

Lemma consistent_step need s e :
  pconsistent need s = true ->
  (match e with PRegister => has_parts need s | _ => true end) = true ->
  pconsistent need (papply s e) = true.
Proof.
  unfold pconsistent. intros Hc He. destruct e; simpl.
  - apply orb_true_iff in Hc. destruct Hc as [Hc|Hc].
    + rewrite Hc. reflexivity.
    + apply orb_true_iff. right. apply (has_parts_mono need s (PLayout part)). exact Hc.
  - unfold has_parts in *. simpl. exact He.
  - exact Hc.
Qed.

(* If the registration comes only after the layout is complete, then every
   state a second client can observe -- after any prefix of the creator's
   steps, which is also every state a creator that stops for good leaves
   behind -- is consistent: whatever is listed is complete. *)
Theorem register_last_every_prefix_consistent need : forall l s,
  pconsistent need s = true -> register_last need s l = true ->
  forall k, pconsistent need (fold_left papply (firstn k l) s) = true.
Proof.
  induction l as [|e r IH]; intros s Hc Hr k.
  - destruct k; exact Hc.
  - destruct k as [|k]; [exact Hc|].
    cbn [firstn fold_left]. cbn [register_last] in Hr.
    apply andb_true_iff in Hr. destruct Hr as [He Hr].
    apply IH; [apply consistent_step; assumption|exact Hr].
Qed.

Corollary create_every_prefix_consistent need l k :
  register_last need p0 l = true -> pconsistent need (prun (firstn k l)) = true.
Proof. intros H. apply register_last_every_prefix_consistent; [reflexivity|exact H]. Qed.

(* the converse direction as a witness: registering first is observable *)
Example register_first_is_observable :
  pconsistent [0; 1] (prun (firstn 1 [PRegister; PLayout 0; PLayout 1])) = false.
Proof. reflexivity. Qed.

Example create_pool_order_ok :
  register_last [0; 1] p0 [POther; PLayout 0; PLayout 0; POther; PLayout 1; PRegister; POther] = true.
Proof. reflexivity. Qed.
