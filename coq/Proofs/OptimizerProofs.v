(* Proofs about the optimizer model (C07). *)
From ZV Require Import Base.Prelude Model.Dag Model.DagSem Model.Optimizer.
Local Open Scope Z_scope.

(* ---- deep induction over ops (fork paths and over bodies) ---- *)
Lemma op_deep_ind (P : op -> Prop) :
  (forall paths, Forall (Forall P) paths -> P (OFork paths)) ->
  (forall id b, Forall P b -> P (OOver id (Some b))) ->
  (forall o, (forall paths, o <> OFork paths) -> (forall id b, o <> OOver id (Some b)) -> P o) ->
  forall o, P o.
Proof.
  intros HF HO HB.
  fix IH 1.
  intros o.
  destruct o as [sk f|e|a|a|a|a|a nf r|n|n| |c| |i|l k a d pi po|paths|e d| |i lk rk ld rd|i b|i|i];
    try (apply HB; intros; discriminate).
  - apply HF.
    exact ((fix goP (pp : list (list op)) : Forall (Forall P) pp :=
              match pp with
              | [] => Forall_nil _
              | p :: r =>
                Forall_cons _
                  ((fix goS (s : list op) : Forall P s :=
                      match s with
                      | [] => Forall_nil _
                      | o :: t => Forall_cons _ (IH o) (goS t)
                      end) p)
                  (goP r)
              end) paths).
  - destruct b as [b|].
    + apply HO.
      exact ((fix goS (s : list op) : Forall P s :=
                match s with
                | [] => Forall_nil _
                | o :: t => Forall_cons _ (IH o) (goS t)
                end) b).
    + apply HB; intros; discriminate.
Qed.

Section Proofs.
  Variable V : Type.
  Variable holds : expr -> V -> bool.
  Variable app : op -> list V -> list V.
  Variable multi : op -> list (list V) -> list V.
  Variable comb : list (list V) -> list V.
  Variable over_run : N -> (list V -> list V) -> list V -> list V.

  (* The filter keeps exactly the values on which the predicate holds, and
     `a and b` holds iff both do (three-valued and: true only if both true). *)
  Hypothesis and_law : forall a b v, holds (EAnd a b) v = holds a v && holds b v.
  (* `over` depends on its body only through the body's input/output behaviour. *)
  Hypothesis over_ext : forall id f g l, (forall x, f x = g x) -> over_run id f l = over_run id g l.

  Notation sem_op := (sem_op V holds app multi comb over_run).
  Notation sem_seq := (sem_seq V holds app multi comb over_run).
  Notation run := (run V holds app multi comb over_run).
  Notation collapse := (collapse V comb).

  (* the local fix inside sem_op is sem_seq *)
  Lemma inner_seq s : forall q,
    (fix ss (s : list op) (q : list (list V)) {struct s} : list (list V) :=
       match s with [] => q | o' :: r => ss r (sem_op o' q) end) s q = sem_seq s q.
  Proof. induction s as [|o r IH]; intros q; simpl; [reflexivity|apply IH]. Qed.

  Lemma sem_fork paths ps :
    sem_op (OFork paths) ps = map (fun p => collapse (sem_seq p [collapse ps])) paths.
  Proof.
    simpl.
    apply map_ext.
    intros p.
    rewrite inner_seq.
    reflexivity.
  Qed.

  Lemma sem_over id b ps :
    sem_op (OOver id (Some b)) ps =
    [over_run id (fun l => collapse (sem_seq b [l])) (collapse ps)].
  Proof.
    simpl.
    rewrite (over_ext id _ (fun l => collapse (sem_seq b [l]))); [reflexivity|].
    intros x. rewrite inner_seq. reflexivity.
  Qed.

  Lemma sem_seq_app s t q : sem_seq (s ++ t) q = sem_seq t (sem_seq s q).
  Proof. revert q. induction s as [|o r IH]; intros q; simpl; [reflexivity|apply IH]. Qed.

  (* two plans with the same meaning, as transformers of the parent streams *)
  Definition op_equiv (o o' : op) : Prop := forall ps, sem_op o ps = sem_op o' ps.
  Definition seq_equiv (s s' : list op) : Prop := forall q, sem_seq s q = sem_seq s' q.

  Lemma seq_equiv_map (f : op -> op) s :
    Forall (fun o => op_equiv (f o) o) s -> seq_equiv (map f s) s.
  Proof.
    induction 1 as [|o r Ho _ IH]; intros q; simpl; [reflexivity|].
    rewrite Ho. apply IH.
  Qed.

  (* ---- walk: a sequence rewrite that preserves meaning may be applied at
          every nesting level ---- *)
  Lemma walk_op_equiv over post :
    (forall s, seq_equiv (post s) s) ->
    forall o, op_equiv (walk_op over post o) o.
  Proof.
    intros Hpost.
    apply (op_deep_ind (fun o => op_equiv (walk_op over post o) o)).
    - intros paths HF ps. simpl walk_op. rewrite !sem_fork. rewrite map_map.
      apply map_ext_in. intros p Hin.
      rewrite Forall_forall in HF. specialize (HF p Hin).
      rewrite Hpost. rewrite (seq_equiv_map _ _ HF). reflexivity.
    - intros id b HF ps. simpl walk_op. destruct over; [|reflexivity].
      rewrite !sem_over.
      rewrite (over_ext id _ (fun l => collapse (sem_seq b [l]))); [reflexivity|].
      intros x.
      rewrite Hpost. rewrite (seq_equiv_map _ _ HF). reflexivity.
    - intros o HnF HnO ps.
      destruct o as [sk f|e|a|a|a|a|a nf r|n|n| |c| |i|l k a d pi po|paths|e d| |i lk rk ld rd|i b|i|i];
        try reflexivity.
      + exfalso. eapply HnF. reflexivity.
      + destruct b as [b|]; [exfalso; eapply HnO; reflexivity|reflexivity].
  Qed.

  Lemma walk_equiv over post :
    (forall s, seq_equiv (post s) s) -> forall s, seq_equiv (walk over post s) s.
  Proof.
    intros Hpost s q. unfold walk. rewrite Hpost.
    apply seq_equiv_map. apply Forall_forall. intros o _. apply walk_op_equiv. exact Hpost.
  Qed.

  (* ---- mergeFilters ---- *)
  Lemma filter_and a b (l : list V) :
    filter (holds b) (filter (holds a) l) = filter (holds (EAnd a b)) l.
  Proof.
    induction l as [|v l IH]; simpl; [reflexivity|].
    rewrite and_law. destruct (holds a v) eqn:Ha; simpl.
    - destruct (holds b v); rewrite IH; reflexivity.
    - exact IH.
  Qed.

  Lemma merge_post_equiv s : seq_equiv (merge_post s) s.
  Proof.
    induction s as [|x r IH]; intros q; [reflexivity|].
    simpl merge_post.
    destruct x as [sk f|e|a|a|a|a|a nf rv|n|n| |c| |i|l k a d pi po|paths|e d| |i lk rk ld rd|i b|i|i];
      try (simpl; apply IH).
    (* x = OFilter e *)
    destruct (merge_post r) as [|y r''] eqn:E.
    - simpl. rewrite <- (IH _). reflexivity.
    - destruct y as [sk f|e2|a|a|a|a|a nf rv|n|n| |c| |i|l k a d pi po|paths|e2 d| |i lk rk ld rd|i b|i|i];
        try (simpl; rewrite <- (IH _); reflexivity).
      (* two adjacent filters *)
      simpl. rewrite <- (IH _). simpl. rewrite filter_and. reflexivity.
  Qed.

  Theorem merge_filters_preserves s input : run (merge_filters s) input = run s input.
  Proof. unfold run, merge_filters. rewrite (walk_equiv true merge_post merge_post_equiv). reflexivity. Qed.

  (* ---- removePassOps ---- *)
  Lemma filter_pass_equiv s : seq_equiv (filter (fun o => negb (is_pass o)) s) s.
  Proof.
    induction s as [|x r IH]; intros q; [reflexivity|].
    simpl. destruct x; simpl; try apply IH.
  Qed.

  Lemma pass_post_equiv s : seq_equiv (pass_post s) s.
  Proof.
    intros q. unfold pass_post.
    destruct (filter (fun o => negb (is_pass o)) s) as [|y t] eqn:E.
    - rewrite <- (filter_pass_equiv s q). rewrite E. reflexivity.
    - rewrite <- (filter_pass_equiv s q). rewrite E. reflexivity.
  Qed.

  Theorem remove_pass_preserves s input : run (remove_pass s) input = run s input.
  Proof. unfold run, remove_pass. rewrite (walk_equiv true pass_post pass_post_equiv). reflexivity. Qed.

  (* ---- matchFilter: a leading filter lifted into the scan ---- *)
  Theorem scan_filter_lift sk e chain input :
    run (OScan sk (Some e) :: chain) input = run (OScan sk None :: OFilter e :: chain) input.
  Proof. reflexivity. Qed.
End Proofs.

(* ---- Optimize never panics: removePassOps runs before insertDemand, so the
        shared dag.PassOp cannot occur twice at the top level ---- *)
Lemma filter_pass_none l : filter is_pass (filter (fun o => negb (is_pass o)) l) = [].
Proof.
  induction l as [|o r IH]; [reflexivity|].
  simpl. destruct (is_pass o) eqn:E; simpl; [exact IH|]. rewrite E. exact IH.
Qed.

Lemma count_pass_post l : (count_pass (pass_post l) <= 1)%nat.
Proof.
  unfold pass_post, count_pass.
  destruct (filter (fun o => negb (is_pass o)) l) as [|y t] eqn:E.
  - simpl. apply le_n.
  - rewrite <- E. rewrite filter_pass_none. simpl. apply le_S, le_n.
Qed.

Theorem optimize_total s :
  optimize s =
  Some (remove_pass (source_paths (merge_filters (opt_parallels (remove_pass (merge_filters s)))))).
Proof.
  unfold optimize. cbv zeta.
  match goal with |- (if (2 <=? count_pass ?x)%nat then _ else _) = _ =>
    pose proof (count_pass_post (map (walk_op true pass_post)
      (source_paths (merge_filters (opt_parallels (remove_pass (merge_filters s))))))) as H;
    change (count_pass x <= 1)%nat in H;
    destruct (2 <=? count_pass x)%nat eqn:E end; [|reflexivity].
  apply Nat.leb_le in E. exfalso. eapply Nat.nle_succ_diag_l. eapply Nat.le_trans; eassumption.
Qed.

Arguments parent_of : simpl never.

Section Proofs2.
  Variable V : Type.
  Variable holds : expr -> V -> bool.
  Variable app : op -> list V -> list V.
  Variable multi : op -> list (list V) -> list V.
  Variable comb : list (list V) -> list V.
  Variable over_run : N -> (list V -> list V) -> list V -> list V.
  Hypothesis over_ext : forall id f g l, (forall x, f x = g x) -> over_run id f l = over_run id g l.
  Notation sem_op := (sem_op V holds app multi comb over_run).
  Notation sem_seq := (sem_seq V holds app multi comb over_run).
  Notation op_equiv := (op_equiv V holds app multi comb over_run).
  Notation seq_equiv := (seq_equiv V holds app multi comb over_run).

  Lemma inner_prop s : forall parents,
    (fix prop_seq (s : list op) (parents : list sortkeys) {struct s} : list op * prop_res :=
        match s with
        | [] => ([], (parents, false))
        | o' :: r =>
          let '(o2, (ps2, e)) := prop_op o' parents in
          if e then (o2 :: r, ([[]], true))
          else let '(r2, res) := prop_seq r ps2 in (o2 :: r2, res)
        end) s parents = prop_seq s parents.
  Proof.
    induction s as [|o r IH]; intros parents; simpl; [reflexivity|].
    destruct (prop_op o parents) as [o2 [ps2 e]]. destruct e; [reflexivity|].
    rewrite IH. reflexivity.
  Qed.

  Lemma prop_seq_equiv s :
    Forall (fun o => forall parents, op_equiv (fst (prop_op o parents)) o) s ->
    forall parents, seq_equiv (fst (prop_seq s parents)) s.
  Proof.
    induction 1 as [|o r Ho _ IH]; intros parents q; simpl; [reflexivity|].
    specialize (Ho parents).
    destruct (prop_op o parents) as [o2 [ps2 e]]. simpl in Ho.
    destruct e; simpl.
    - rewrite Ho. reflexivity.
    - specialize (IH ps2). destruct (prop_seq r ps2) as [r2 res]. simpl in *.
      rewrite Ho. apply IH.
  Qed.

  Lemma prop_op_equiv : forall o parents, op_equiv (fst (prop_op o parents)) o.
  Proof.
    apply (op_deep_ind (fun o => forall parents, op_equiv (fst (prop_op o parents)) o)).
    - intros paths HF parents ps.
      simpl prop_op.
      set (parent := parent_of (OFork paths) parents).
      match goal with |- context [ ?g paths ] =>
        match type of g with list (list op) -> list (list op) * prop_res => set (go := g) end end.
      assert (G : forall pp, Forall (Forall (fun o => forall parents, op_equiv (fst (prop_op o parents)) o)) pp ->
                  map (fun p => collapse V comb (sem_seq p [collapse V comb ps])) (fst (go pp)) =
                  map (fun p => collapse V comb (sem_seq p [collapse V comb ps])) pp).
      { induction 1 as [|p r Hp _ IHr]; [reflexivity|].
        simpl go. rewrite inner_prop.
        pose proof (prop_seq_equiv p Hp [parent]) as E.
        destruct (prop_seq p [parent]) as [p2 [out e]]. simpl in E.
        destruct e; simpl.
        - rewrite E. reflexivity.
        - destruct (go r) as [r2 [outs e2]]. simpl in *. rewrite E. f_equal. exact IHr. }
      specialize (G paths HF).
      destruct (go paths) as [paths' res]. cbn [fst] in *.
      rewrite !sem_fork. exact G.
    - intros id b HF parents ps. reflexivity.
    - intros o HnF HnO parents ps.
      destruct o as [sk f|e|a|a|a|a|a nf r|n|n| |c| |i|l k a d pi po|paths|e d| |i lk rk ld rd|i b|i|i];
        try reflexivity; try (exfalso; eapply HnF; reflexivity).
      all: try (destruct b as [b|]; [exfalso; eapply HnO; reflexivity|reflexivity]).
      all: simpl prop_op.
      all: try (destruct (parent_of _ parents) as [|[d0 key] rest]; [reflexivity|];
                destruct (summ_match k key); reflexivity).
      all: try (destruct parents as [|p0 [|p1 [|p2 r]]]; reflexivity).
  Qed.

  (* ---- optimizeSourcePaths on one sequence ---- *)
  Definition scan_clean (s : list op) : Prop :=
    match s with OScan _ (Some _) :: _ => False | _ => True end.

  Lemma prop_seq_head o r parents :
    exists r2, fst (prop_seq (o :: r) parents) = fst (prop_op o parents) :: r2.
  Proof.
    simpl. destruct (prop_op o parents) as [o2 [ps2 e]]. destruct e; simpl.
    - eexists; reflexivity.
    - destruct (prop_seq r ps2) as [r2 res]. eexists; reflexivity.
  Qed.

  Lemma prop_op_scan o parents sk f :
    fst (prop_op o parents) = OScan sk f -> o = OScan sk f.
  Proof.
    destruct o as [sk0 f0|e|a|a|a|a|a nf r|n|n| |c| |i|l k a d pi po|paths|e d| |i lk rk ld rd|i b|i|i];
      simpl; try discriminate; try (intros H; exact H).
    - destruct (parent_of _ parents) as [|[d0 key] rest]; [discriminate|].
      destruct (summ_match k key); discriminate.
    - match goal with |- context [ ?g paths ] =>
        match type of g with list (list op) -> list (list op) * prop_res => destruct (g paths) end end.
      discriminate.
    - destruct parents as [|p0 [|p1 [|p2 r]]]; discriminate.
  Qed.

  Lemma source_post_equiv s : scan_clean s -> seq_equiv (source_post s) s.
  Proof.
    intros Hc. unfold source_post.
    destruct s as [|o [|o1 r]]; try (intros q; reflexivity).
    pose proof (prop_seq_equiv (o :: o1 :: r)
                  (proj2 (Forall_forall _ _) (fun x _ => prop_op_equiv x)) [[]]) as E.
    destruct (prop_seq_head o (o1 :: r) [[]]) as [r2 Hh].
    remember (fst (prop_seq (o :: o1 :: r) [[]])) as s2 eqn:Hs2.
    destruct s2 as [|x t]; [exact E|].
    inversion Hh; subst x t.
    destruct (fst (prop_op o [[]])) as [sk f|e|a|a|a|a|a nf rv|n|n| |c| |i|l k a d pi po|paths|e d| |i lk rk ld rd|i b|i|i] eqn:Ho;
      try exact E.
    apply prop_op_scan in Ho. subst o. simpl in Hc.
    destruct f as [f|]; [contradiction|].
    intros q. rewrite <- (E q).
    destruct r2 as [|y t]; [reflexivity|].
    destruct y; reflexivity.
  Qed.

  Hypothesis and_law : forall a b v, holds (EAnd a b) v = holds a v && holds b v.
  Notation run := (run V holds app multi comb over_run).

  (* End to end, for the plans on which nothing is lifted into fork branches
     and no nested entry is rewritten (both are computable side conditions;
     every fork-free plan satisfies them): Optimize succeeds and the plan it
     returns means what the analysed plan means. *)
  Theorem optimize_preserves_partial s input :
    forall s2, s2 = remove_pass (merge_filters s) ->
    opt_parallels s2 = s2 ->
    source_paths (merge_filters s2) = source_post (merge_filters s2) ->
    scan_clean (merge_filters s2) ->
    exists s', optimize s = Some s' /\ run s' input = run s input.
  Proof.
    intros s2 Es2 Hl Hs Hc.
    rewrite optimize_total. eexists. split; [reflexivity|].
    rewrite <- Es2. rewrite Hl. rewrite Hs.
    rewrite (remove_pass_preserves V holds app multi comb over_run over_ext).
    unfold run at 1. rewrite (source_post_equiv _ Hc). fold (run (merge_filters s2) input).
    rewrite (merge_filters_preserves V holds app multi comb over_run and_law over_ext).
    subst s2.
    rewrite (remove_pass_preserves V holds app multi comb over_run over_ext).
    apply (merge_filters_preserves V holds app multi comb over_run and_law over_ext).
  Qed.
End Proofs2.

(* ---- the sort-key analysis (analyzeSortKeys) against a concrete record model ----
   Flat records: field name -> value.  cut/drop as the runtime does them for
   plain field arguments. *)
Definition rec := list (N * N).

Fixpoint lookup (k : N) (r : rec) : option N :=
  match r with
  | [] => None
  | (n, v) :: t => if N.eqb n k then Some v else lookup k t
  end.

Definition cut_sem (args : list assignment) (r : rec) : rec :=
  flat_map (fun a => match a with
                     | (EThis [l], EThis [x]) =>
                       match lookup x r with Some v => [(l, v)] | None => [] end
                     | _ => []
                     end) args.

Definition dropped (args : list expr) (n : N) : bool :=
  existsb (fun a => match a with EThis [m] => N.eqb m n | _ => false end) args.

Definition drop_sem (args : list expr) (r : rec) : rec :=
  filter (fun f => negb (dropped args (fst f))) r.

(* analyzeCuts (as fixed by d16c8d29d): when it reports that the order on k
   continues as the order on k', then k' of the cut's output carries exactly
   the value of k of its input -- for every flat record and every cut whose
   arguments are plain top-level fields with distinct targets. *)
Definition flat_arg (a : assignment) : Prop :=
  match a with (EThis [_], EThis [_]) => True | _ => False end.

Definition lhs_name (a : assignment) : N :=
  match a with (EThis [l], _) => l | _ => 0%N end.

Definition ordered_of (args : list assignment) (k : N) : list path :=
  flat_map (fun a => match a with
                     | (EThis [l], EThis [x]) => if N.eqb x k then [[l]] else []
                     | _ => []
                     end) args.

Lemma cuts_loop_flat args k : forall acc,
  Forall flat_arg args -> cuts_loop args [k] acc = Some (acc ++ ordered_of args k).
Proof.
  induction args as [|a rest IH]; intros acc HF; simpl.
  - rewrite app_nil_r. reflexivity.
  - inversion HF as [|? ? Ha Hr]; subst.
    destruct a as [l r]. destruct l as [[|l [|? ?]]| | | | | | |]; try contradiction.
    destruct r as [[|x [|? ?]]| | | | | | |]; try contradiction.
    simpl. unfold path_eqb. simpl. rewrite andb_true_r.
    destruct (N.eqb x k).
    + rewrite (IH _ Hr). rewrite <- app_assoc. reflexivity.
    + rewrite (IH _ Hr). reflexivity.
Qed.

Lemma lookup_app n a b :
  lookup n (a ++ b) = match lookup n a with Some v => Some v | None => lookup n b end.
Proof.
  induction a as [|[m v] t IH]; simpl; [reflexivity|].
  destruct (N.eqb m n); [reflexivity|exact IH].
Qed.

Lemma lookup_cut_notin args r n :
  Forall flat_arg args -> ~ In n (map lhs_name args) -> lookup n (cut_sem args r) = None.
Proof.
  induction args as [|a rest IH]; intros HF Hn; [reflexivity|].
  inversion HF as [|? ? Ha Hr]; subst.
  destruct a as [l x]. destruct l as [[|l [|? ?]]| | | | | | |]; try contradiction.
  destruct x as [[|x [|? ?]]| | | | | | |]; try contradiction.
  simpl in Hn. unfold cut_sem. simpl. fold (cut_sem rest r).
  rewrite lookup_app.
  assert (Hl : N.eqb l n = false) by (apply N.eqb_neq; intros E; apply Hn; left; exact E).
  destruct (lookup x r); simpl; rewrite ?Hl; apply IH; auto.
Qed.

Lemma ordered_of_in args k k' :
  Forall flat_arg args -> In [k'] (ordered_of args k) -> In k' (map lhs_name args).
Proof.
  induction args as [|a rest IH]; intros HF Hin; [contradiction|].
  inversion HF as [|? ? Ha Hr]; subst.
  destruct a as [l x]. destruct l as [[|l [|? ?]]| | | | | | |]; try contradiction.
  destruct x as [[|x [|? ?]]| | | | | | |]; try contradiction.
  simpl in *. destruct (N.eqb x k); simpl in Hin.
  - destruct Hin as [E|Hin]; [left; congruence|right; apply IH; assumption].
  - right. apply IH; assumption.
Qed.

Lemma cut_value args k k' r :
  Forall flat_arg args -> NoDup (map lhs_name args) ->
  ordered_of args k = [[k']] ->
  lookup k' (cut_sem args r) = lookup k r.
Proof.
  induction args as [|a rest IH]; intros HF ND HO; [discriminate|].
  inversion HF as [|? ? Ha Hr]; subst.
  destruct a as [l x]. destruct l as [[|l [|? ?]]| | | | | | |]; try contradiction.
  destruct x as [[|x [|? ?]]| | | | | | |]; try contradiction.
  simpl in ND. inversion ND as [|? ? Hnotin ND']; subst.
  unfold cut_sem. simpl. fold (cut_sem rest r). rewrite lookup_app.
  simpl in HO. destruct (N.eqb x k) eqn:Exk.
  - apply N.eqb_eq in Exk. subst x. simpl in HO. inversion HO as [[El HO']]. subst l.
    destruct (lookup k r) as [v|] eqn:Ek; simpl.
    + rewrite N.eqb_refl. reflexivity.
    + apply lookup_cut_notin; assumption.
  - simpl in HO.
    assert (Hin : In k' (map lhs_name rest)).
    { apply (ordered_of_in rest k); [assumption|]. rewrite HO. left; reflexivity. }
    assert (Hl : N.eqb l k' = false).
    { apply N.eqb_neq. intros E. subst l. contradiction. }
    destruct (lookup x r); simpl; rewrite ?Hl; apply IH; assumption.
Qed.

Theorem analyze_cut_keeps_key args d k k' r :
  Forall flat_arg args -> NoDup (map lhs_name args) ->
  analyze (OCut args) [(d, [k])] = [(d, [k'])] ->
  lookup k' (cut_sem args r) = lookup k r.
Proof.
  intros HF ND HA. simpl in HA. unfold analyze_cuts in HA.
  rewrite (cuts_loop_flat args k [] HF) in HA. simpl in HA.
  destruct (ordered_of args k) as [|f [|g t]] eqn:EO; try discriminate.
  inversion HA; subst f. apply cut_value; assumption.
Qed.

Example analyze_cut_nonvacuous :     (* cut c, kk:=k  keeps the order, as kk *)
  analyze (OCut [(EThis [2%N], EThis [2%N]); (EThis [3%N], EThis [1%N])]) [(true, [1%N])]
  = [(true, [3%N])].
Proof. reflexivity. Qed.

(* The former counterexamples (DESIGN lead L23) are now analysed as "order
   unknown": `cut c` alone, `cut c | rename k:=c`, and put/drop/rename of a
   record containing the key. *)
Theorem analyze_former_counterexamples :
  let k := [1%N] in let c := [2%N] in let n := [4%N] in let nx := [4%N; 5%N] in
  analyze (OCut [(EThis c, EThis c)]) [(false, k)] = [] /\
  analyze (ORename [(EThis k, EThis c)]) [(false, k)] = [] /\
  analyze (OPut [(EThis n, EOther 0)]) [(false, nx)] = [] /\
  analyze (ODrop [EThis n]) [(false, nx)] = [] /\
  analyze (ORename [(EThis [6%N], EThis n)]) [(false, nx)] = [].
Proof. repeat split; reflexivity. Qed.

(* drop is analysed correctly for top-level fields. *)
Lemma dropped_false args k :
  existsb (fun f => overlaps_e f [k]) args = false -> dropped args k = false.
Proof.
  induction args as [|a r IH]; simpl; [reflexivity|].
  intros H. apply orb_false_iff in H as [H1 H2].
  rewrite (IH H2), orb_false_r.
  destruct a as [p| | | | | | |]; try reflexivity.
  destruct p as [|m [|m2 t]]; try reflexivity.
  simpl in H1. unfold overlaps in H1. simpl in H1. rewrite !andb_true_r in H1.
  apply orb_false_iff in H1 as [_ H1]. exact H1.
Qed.

Theorem analyze_drop_keeps_key args d k r :
  analyze (ODrop args) [(d, [k])] = [(d, [k])] ->
  lookup k (drop_sem args r) = lookup k r.
Proof.
  simpl. destruct (existsb (fun f => overlaps_e f [k]) args) eqn:E; [discriminate|]. intros _.
  apply dropped_false in E.
  induction r as [|[n v] t IH]; [reflexivity|].
  unfold drop_sem in *. simpl.
  destruct (N.eqb n k) eqn:Enk.
  - apply N.eqb_eq in Enk. subst n. rewrite E. simpl. rewrite N.eqb_refl. reflexivity.
  - destruct (dropped args n); simpl; [exact IH|]. rewrite Enk. exact IH.
Qed.

Example analyze_drop_nonvacuous :
  analyze (ODrop [EThis [2%N]]) [(false, [1%N])] = [(false, [1%N])].
Proof. reflexivity. Qed.

(* ---- null placement of sort versus sort keys ---- *)
Lemma sort_puts_nulls_first_eq nf desc : sort_puts_nulls_first nf desc = nf.
Proof. destruct nf, desc; reflexivity. Qed.

(* liftIntoParPaths (as fixed by 7e8198198): a sort is replaced by per-leg sorts
   and a new merge only if the merge has the sort's direction and null placement. *)
Theorem lift_sort_merge_agrees paths k0 d0 nf rev after paths' e d after' :
  lift (OFork paths :: OSort [(k0, d0)] nf rev :: after) = OFork paths' :: OMerge e d :: after' ->
  e = k0 /\ d = (if rev then negb d0 else d0) /\
  sort_puts_nulls_first nf d = key_order_nulls_first d /\
  paths' = append_paths paths (OSort [(k0, d0)] nf rev).
Proof.
  unfold lift. rewrite sort_puts_nulls_first_eq. unfold key_order_nulls_first.
  destruct nf, rev, d0; simpl; intros H; inversion H; subst; auto.
Qed.

(* Still false (open finding F-C07-2): sortKeysOfSort describes `sort -r k` as
   the sort key k:desc, but the sort puts nulls last and k:desc means nulls
   first; consumers of the key (join sort elision, merge absorption) then
   mis-order null keys. *)
Theorem sort_key_null_placement_refuted :
  exists args nf rev d p,
    sort_keys_of_sort args rev = [(d, p)] /\
    sort_puts_nulls_first nf d <> key_order_nulls_first d.
Proof.
  exists [(EThis [1%N], false)], false, true, true, [1%N].
  split; [reflexivity|discriminate].
Qed.

(* ---- concurrentPath: operators whose result depends on the positions of the
        values or on the whole stream end the concurrent path and require the
        scan order (a Slicer) ---- *)
Definition positional_op (o : op) : bool :=
  match o with
  | OHead _ | OTail _ | OUniq _ | OFuse | OFork _ | OJoin _ _ _ _ _ | OOutput _ => true
  | _ => false
  end.

Theorem positional_requires_order o r k sk :
  positional_op o = true -> concurrent_path (o :: r) k sk = (k, sk, true, true).
Proof. destruct o; simpl; intros H; try discriminate; reflexivity. Qed.

(* ... also behind any prefix of operators that keep a known order: the path
   ends at the first positional operator with orderRequired = true. *)
Theorem order_required_at_first_positional pre o r : forall k sk,
  positional_op o = true ->
  let '(_, _, required, _) := concurrent_path (pre ++ o :: r) k sk in
  required = true \/ exists p, In p pre /\ (exists l ks a d pi po, p = OSummarize l ks a d pi po) \/
                                  In p pre /\ (exists a nf rv, p = OSort a nf rv).
Proof.
  induction pre as [|p pre IH]; intros k sk Hp.
  - simpl app. rewrite (positional_requires_order o r k sk Hp). left; reflexivity.
  - simpl app.
    destruct p as [sk0 f|e|a|a|a|a|a nf rv|n|n| |c| |i|l ks a d pi po|paths|e d| |i lk rk ld rd|i b|i|i];
      try (simpl; left; reflexivity);
      try (simpl concurrent_path;
           match goal with |- context [if ?c then _ else _] => destruct c end;
           [left; reflexivity|];
           match goal with |- context [concurrent_path (pre ++ o :: r) ?k' ?sk'] =>
             specialize (IH k' sk' Hp); destruct (concurrent_path (pre ++ o :: r) k' sk') as [[[? ?] rq] ?] end;
           destruct IH as [IH|[q IH]]; [left; exact IH|right; exists q; destruct IH as [[Hin Hq]|[Hin Hq]]; [left|right]; (split; [right; exact Hin|exact Hq])]).
    + (* sort *)
      simpl concurrent_path. destruct (sort_keys_of_sort a rv);
        right; eexists; right; (split; [left; reflexivity|repeat eexists]).
    + (* summarize *)
      simpl concurrent_path. destruct (is_key_of_summarize ks sk); [left; reflexivity|].
      right; eexists; left; (split; [left; reflexivity|repeat eexists]).
Qed.

(* ---- buildRangePruner: which filters get a key-range pruner ---- *)
Theorem prunable_or_needs_both a b key :
  prunable (EBinary 1 a b) key = true -> prunable a key = true /\ prunable b key = true.
Proof. simpl. intros H. apply andb_true_iff in H. exact H. Qed.

Theorem prunable_and_needs_one a b key :
  prunable (EAnd a b) key = true -> prunable a key = true \/ prunable b key = true.
Proof. simpl. intros H. apply orb_true_iff in H. exact H. Qed.

(* A predicate without a comparison of the key with a literal gets no pruner,
   so an `or` with such a side gets none either. *)
Fixpoint mentions_key_cmp (e : expr) (key : path) : bool :=
  match e with
  | EBinary o a b =>
    if is_cmp_op o then
      match a, b with
      | EThis p, ELit _ => path_eqb p key
      | ELit _, EThis p => path_eqb p key
      | _, _ => false
      end
    else mentions_key_cmp a key || mentions_key_cmp b key
  | _ => false
  end.

Lemma prunable_mentions e key : prunable e key = true -> mentions_key_cmp e key = true.
Proof.
  induction e as [p|i|i|o e IH|o a IHa b IHb|i e IH|f args|i]; simpl; try discriminate.
  destruct (N.eqb o 0) eqn:E0.
  - apply N.eqb_eq in E0. subst o. simpl. intros H. apply orb_true_iff in H.
    apply orb_true_iff. destruct H; [left; apply IHa|right; apply IHb]; assumption.
  - destruct (N.eqb o 1) eqn:E1.
    + apply N.eqb_eq in E1. subst o. simpl. intros H. apply andb_true_iff in H as [H _].
      apply orb_true_iff. left. apply IHa. exact H.
    + destruct (is_cmp_op o); [auto|discriminate].
Qed.

Theorem or_with_unanalysable_side_not_prunable a b key :
  mentions_key_cmp b key = false -> prunable (EBinary 1 a b) key = false.
Proof.
  intros H. simpl. destruct (prunable b key) eqn:E.
  - apply prunable_mentions in E. congruence.
  - apply andb_false_r.
Qed.
