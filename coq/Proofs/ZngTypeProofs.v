(* The local type table (zed.Context interning as used by the ZNG Encoder and
   Decoder): ids are handed out in order of first appearance from 30, an id
   always denotes the typedef it was handed out for, and the table a reader
   rebuilds from the typedef sequence of a stream is the writer's table. *)
From ZV Require Import Base.Prelude Base.Uvarint Base.Zcode Model.Zng.
From Coq Require Import ZifyN ZifyNat ZifyBool.
Local Open Scope N_scope.

Lemma pair_eqb_eq {A B} (ea : A -> A -> bool) (eb : B -> B -> bool)
      (HA : forall x y, ea x y = true <-> x = y) (HB : forall x y, eb x y = true <-> x = y) :
  forall x y, pair_eqb ea eb x y = true <-> x = y.
Proof.
  intros [a b] [a' b']. unfold pair_eqb. simpl. rewrite andb_true_iff, HA, HB.
  split; [intros [? ?]; subst; reflexivity|intros E; inversion E; auto].
Qed.

Lemma tdef_eqb_eq a b : tdef_eqb a b = true <-> a = b.
Proof.
  destruct a, b; simpl; try (split; [discriminate|intros E; discriminate E]).
  - rewrite (list_eqb_eq _ (pair_eqb_eq _ _ bytes_eqb_eq N.eqb_eq)).
    split; [intros; subst; reflexivity|intros E; inversion E; reflexivity].
  - rewrite N.eqb_eq. split; [intros; subst; reflexivity|intros E; inversion E; reflexivity].
  - rewrite N.eqb_eq. split; [intros; subst; reflexivity|intros E; inversion E; reflexivity].
  - rewrite andb_true_iff, !N.eqb_eq.
    split; [intros [? ?]; subst; reflexivity|intros E; inversion E; auto].
  - rewrite (list_eqb_eq _ N.eqb_eq).
    split; [intros; subst; reflexivity|intros E; inversion E; reflexivity].
  - rewrite (list_eqb_eq _ bytes_eqb_eq).
    split; [intros; subst; reflexivity|intros E; inversion E; reflexivity].
  - rewrite N.eqb_eq. split; [intros; subst; reflexivity|intros E; inversion E; reflexivity].
  - rewrite andb_true_iff, bytes_eqb_eq, N.eqb_eq.
    split; [intros [? ?]; subst; reflexivity|intros E; inversion E; auto].
Qed.

Lemma index_of_some d tbl : forall k i,
  index_of d tbl k = Some i ->
  k <= i /\ nth_error tbl (N.to_nat (i - k)) = Some d.
Proof.
  induction tbl as [|x tbl IH]; intros k i H; simpl in H; [discriminate|].
  destruct (tdef_eqb x d) eqn:E.
  - inversion H; subst. apply tdef_eqb_eq in E. subst.
    split; [lia|]. replace (i - i) with 0 by lia. reflexivity.
  - apply IH in H. destruct H as [L H]. split; [lia|].
    replace (N.to_nat (i - k)) with (S (N.to_nat (i - (k + 1)))) by lia. exact H.
Qed.

Lemma index_of_none d tbl : forall k, index_of d tbl k = None -> ~ In d tbl.
Proof.
  induction tbl as [|x tbl IH]; intros k H; simpl in *; [tauto|].
  destruct (tdef_eqb x d) eqn:E; [discriminate|].
  intros [X|X].
  - subst. assert (T : tdef_eqb d d = true) by (apply tdef_eqb_eq; reflexivity). congruence.
  - exact (IH _ H X).
Qed.

(* the id returned for d denotes d in the resulting table; the table only grows at the end *)
Theorem intern_lookup tbl d :
  30 <= snd (intern tbl d) /\
  nth_error (fst (intern tbl d)) (N.to_nat (snd (intern tbl d) - 30)) = Some d /\
  exists ext, fst (intern tbl d) = tbl ++ ext.
Proof.
  unfold intern. destruct (index_of d tbl 0) as [i|] eqn:E; cbn [fst snd].
  - apply index_of_some in E. destruct E as [_ E].
    split; [lia|]. split.
    + replace (30 + i - 30) with (i - 0) by lia. exact E.
    + exists []. rewrite app_nil_r. reflexivity.
  - split; [lia|]. split.
    + replace (30 + len tbl - 30) with (len tbl) by lia.
      unfold len. rewrite Nat2N.id. rewrite nth_error_app2 by lia.
      rewrite Nat.sub_diag. reflexivity.
    + exists [d]. reflexivity.
Qed.

(* ids handed out earlier keep their meaning *)
Theorem intern_stable tbl d j x :
  nth_error tbl j = Some x -> nth_error (fst (intern tbl d)) j = Some x.
Proof.
  intros H. destruct (intern_lookup tbl d) as [_ [_ [ext E]]]. rewrite E.
  rewrite nth_error_app1; [exact H|]. apply nth_error_Some. congruence.
Qed.

(* a typedef already in the table gets its old id and no new entry: one id per distinct typedef *)
Theorem intern_existing tbl d :
  In d tbl -> fst (intern tbl d) = tbl /\ snd (intern tbl d) < 30 + len tbl.
Proof.
  intros I. unfold intern. destruct (index_of d tbl 0) as [i|] eqn:E; cbn [fst snd].
  - split; [reflexivity|]. apply index_of_some in E. destruct E as [_ E].
    assert (L : (N.to_nat (i - 0) < List.length tbl)%nat) by (apply nth_error_Some; congruence).
    unfold len. lia.
  - apply index_of_none in E. contradiction.
Qed.

Lemma intern_all_app a b :
  intern_all (a ++ b) = fold_left (fun tbl d => fst (intern tbl d)) b (intern_all a).
Proof. unfold intern_all. apply fold_left_app. Qed.

(* the table after one more typedef: what Encoder.encode* / Decoder.readType* do per typedef *)
Theorem intern_all_snoc ds d :
  intern_all (ds ++ [d]) = fst (intern (intern_all ds) d).
Proof. rewrite intern_all_app. reflexivity. Qed.

(* tables never contain a typedef twice *)
Theorem intern_all_nodup ds : NoDup (intern_all ds).
Proof.
  induction ds as [|d ds IHds] using rev_ind; [constructor|].
  pose proof IHds as IH.
  rewrite intern_all_snoc. unfold intern.
  destruct (index_of d (intern_all ds) 0) as [i|] eqn:E; cbn [fst snd]; [exact IH|].
  apply index_of_none in E.
  clear IHds. revert IH E. generalize (intern_all ds) as l.
  induction l as [|x l IHl]; intros ND NI; simpl.
  - constructor; [tauto|constructor].
  - inversion ND as [|? ? NX NDl]; subst. constructor.
    + intros X. apply in_app_or in X. destruct X as [X|[X|[]]]; [tauto|].
      subst. apply NI. left. reflexivity.
    + apply IHl; [exact NDl|]. intros X. apply NI. right. exact X.
Qed.
