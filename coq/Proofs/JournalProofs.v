From ZV Require Import Base.Prelude Model.Journal.

Lemma nth_set_nth_eq {A} (x : A) : forall l i y, nth_error l i = Some y -> nth_error (set_nth i x l) i = Some x.
Proof.
  induction l as [|z r IH]; intros i y H; destruct i; simpl in *; try discriminate; [reflexivity|].
  eapply IH; eauto.
Qed.

Lemma nth_set_nth_neq {A} (x : A) : forall l i j, i <> j -> nth_error (set_nth i x l) j = nth_error l j.
Proof.
  induction l as [|z r IH]; intros i j N; destruct i, j; simpl; try reflexivity; try congruence.
  apply IH. congruence.
Qed.

Lemma firstn_app_le {A} (l : list A) x k : (k <= List.length l)%nat -> firstn k (l ++ [x]) = firstn k l.
Proof.
  intros H. rewrite firstn_app. replace (k - List.length l)%nat with 0%nat by lia. simpl. apply app_nil_r.
Qed.

Lemma nth_error_app_last {A} (l : list A) x : nth_error (l ++ [x]) (List.length l) = Some x.
Proof. rewrite nth_error_app2 by lia. rewrite Nat.sub_diag. reflexivity. Qed.

Lemma nth_error_app_lt {A} (l : list A) x k : (k < List.length l)%nat -> nth_error (l ++ [x]) k = nth_error l k.
Proof. intros H. apply nth_error_app1. exact H. Qed.

(* the per-client invariant *)
Definition client_ok (s : jstate) (i : nat) (c : client) : Prop :=
  match cpc c with
  | PStart => count_entries s i = 0%nat
  | PLoaded at_ => (at_ <= List.length (entries s))%nat /\ count_entries s i = 0%nat
  | PChecked at_ => (at_ <= List.length (entries s))%nat /\ jcheck (cop c) (table s at_) = true
                    /\ count_entries s i = 0%nat
  | PWroteEntry at_ => (at_ < List.length (entries s))%nat /\ count_entries s i = 1%nat
  | PDone true => count_entries s i = 1%nat
  | PDone false => count_entries s i = 0%nat
  end.

Definition Inv (s : jstate) : Prop :=
  (head s <= List.length (entries s))%nat /\
  (forall k, entry_ok s k) /\
  (forall i c, nth_error (clients s) i = Some c -> client_ok s i c) /\
  (forall k i p, nth_error (entries s) k = Some (i, p) -> (i < List.length (clients s))%nat).

Lemma inv_init ops : Inv (jinit ops).
Proof.
  unfold Inv, jinit. simpl. repeat split.
  - lia.
  - intros k. unfold entry_ok. simpl. destruct k; reflexivity.
  - intros i c H. rewrite nth_error_map in H. destruct (nth_error ops i); inversion H; subst.
    unfold client_ok. simpl. reflexivity.
  - intros k i p H. destruct k; discriminate.
Qed.

Lemma set_nth_length {A} (x : A) : forall l i, List.length (set_nth i x l) = List.length l.
Proof. induction l as [|z r IH]; intros i; destruct i; simpl; auto. Qed.

(* steps that do not touch the log *)
Lemma inv_local s i c c' :
  Inv s -> nth_error (clients s) i = Some c -> cop c' = cop c ->
  client_ok s i c' ->
  Inv (upd s i c' (entries s) (head s)).
Proof.
  intros [I1 [I2 [I3 I4]]] Hc Hop Hok. unfold Inv, upd. simpl. repeat split.
  - exact I1.
  - intros k. specialize (I2 k). unfold entry_ok in *. simpl.
    destruct (nth_error (entries s) k) as [[j p]|] eqn:E; [|exact I].
    destruct (Nat.eq_dec i j) as [->|N].
    + rewrite (nth_set_nth_eq _ _ _ _ Hc). rewrite Hc in I2. rewrite Hop. exact I2.
    + rewrite nth_set_nth_neq by exact N. exact I2.
  - intros j d H. destruct (Nat.eq_dec i j) as [->|N].
    + rewrite (nth_set_nth_eq _ _ _ _ Hc) in H. inversion H; subst. exact Hok.
    + rewrite nth_set_nth_neq in H by exact N. exact (I3 _ _ H).
  - intros k j p H. rewrite set_nth_length. exact (I4 _ _ _ H).
Qed.

Lemma count_app_self s i p :
  List.length (filter (fun e => Nat.eqb (fst e) i) (entries s ++ [(i, p)])) = S (count_entries s i).
Proof. unfold count_entries. rewrite filter_app, app_length. simpl. rewrite Nat.eqb_refl. simpl. lia. Qed.

Lemma count_app_other s i j p : i <> j ->
  List.length (filter (fun e => Nat.eqb (fst e) j) (entries s ++ [(i, p)])) = count_entries s j.
Proof.
  intros N. unfold count_entries. rewrite filter_app, app_length. simpl.
  destruct (Nat.eqb_spec i j); [congruence|]. simpl. lia.
Qed.

Lemma inv_step s i : Inv s -> Inv (jstep s i).
Proof.
  intros HI. unfold jstep.
  destruct (nth_error (clients s) i) as [c|] eqn:Hc; [|exact HI].
  pose proof HI as [I1 [I2 [I3 I4]]]. pose proof (I3 _ _ Hc) as Ok. unfold client_ok in Ok.
  destruct (cpc c) as [|at_|at_|at_|ok] eqn:Epc.
  - (* read HEAD *)
    apply (inv_local s i c); auto. unfold client_ok. simpl. split; [apply le_n | exact Ok].
  - (* constraint *)
    destruct Ok as [Hle Hcnt].
    destruct (jcheck (cop c) (table s at_)) eqn:Ech; apply (inv_local s i c); auto; unfold client_ok; simpl; auto.
  - (* PutIfNotExists *)
    destruct Ok as [Hle [Hch Hcnt]].
    destruct (Nat.eqb_spec (List.length (entries s)) at_) as [El|Nl].
    + (* the entry is appended *)
      unfold Inv, upd. simpl. repeat split.
      * rewrite app_length. simpl. lia.
      * intros k. unfold entry_ok. simpl.
        destruct (Nat.lt_ge_cases k (List.length (entries s))) as [Lt|Ge].
        -- rewrite nth_error_app_lt by exact Lt. specialize (I2 k). unfold entry_ok in I2.
           destruct (nth_error (entries s) k) as [[j p]|] eqn:E; [|exact I].
           unfold table in *. simpl. rewrite firstn_app_le by lia.
           destruct (Nat.eq_dec i j) as [->|N].
           ++ rewrite (nth_set_nth_eq _ _ _ _ Hc). rewrite Hc in I2. exact I2.
           ++ rewrite nth_set_nth_neq by exact N. exact I2.
        -- destruct (Nat.eq_dec k (List.length (entries s))) as [->|Nk].
           ++ rewrite nth_error_app_last. rewrite (nth_set_nth_eq _ _ _ _ Hc). simpl.
              split; [reflexivity|]. unfold table in *. simpl.
              rewrite firstn_app_le by lia. rewrite El. exact Hch.
           ++ assert (nth_error (entries s ++ [(i, jentry (cop c))]) k = None) as ->; [|exact I].
              apply nth_error_None. rewrite app_length. simpl. lia.
      * intros j d H. destruct (Nat.eq_dec i j) as [->|N].
        -- rewrite (nth_set_nth_eq _ _ _ _ Hc) in H. inversion H; subst. unfold client_ok. simpl.
           rewrite app_length. simpl. split; [lia|].
           unfold count_entries. simpl. rewrite count_app_self. rewrite Hcnt. reflexivity.
        -- rewrite nth_set_nth_neq in H by exact N. pose proof (I3 _ _ H) as Okd.
           unfold client_ok in *. unfold count_entries, table in *. simpl.
           rewrite (count_app_other s i j _ N).
           destruct (cpc d) as [|a|a|a|[|]]; try exact Okd.
           ++ destruct Okd as [A B]. split; [rewrite app_length; simpl; lia | exact B].
           ++ destruct Okd as [A [B C]]. split; [rewrite app_length; simpl; lia|].
              split; [rewrite firstn_app_le by lia; exact B | exact C].
           ++ destruct Okd as [A B]. split; [rewrite app_length; simpl; lia | exact B].
      * intros k j p H. rewrite set_nth_length.
        destruct (Nat.lt_ge_cases k (List.length (entries s))) as [Lt|Ge].
        -- rewrite nth_error_app_lt in H by exact Lt. exact (I4 _ _ _ H).
        -- destruct (Nat.eq_dec k (List.length (entries s))) as [->|Nk].
           ++ rewrite nth_error_app_last in H. inversion H; subst.
              apply nth_error_Some. rewrite Hc. discriminate.
           ++ assert (nth_error (entries s ++ [(i, jentry (cop c))]) k = None) as E.
              { apply nth_error_None. rewrite app_length. simpl. lia. }
              rewrite E in H. discriminate.
    + (* the slot is taken: retry or give up; the log is untouched *)
      destruct (Nat.leb max_retries (S (cretries c))); apply (inv_local s i c); auto; unfold client_ok; simpl; auto.
  - (* write HEAD *)
    destruct Ok as [Hlt Hcnt].
    unfold Inv, upd. simpl. repeat split.
    + lia.
    + intros k. specialize (I2 k). unfold entry_ok in *. simpl.
      destruct (nth_error (entries s) k) as [[j p]|] eqn:E; [|exact I].
      unfold table in *. simpl.
      destruct (Nat.eq_dec i j) as [->|N].
      * rewrite (nth_set_nth_eq _ _ _ _ Hc). rewrite Hc in I2. exact I2.
      * rewrite nth_set_nth_neq by exact N. exact I2.
    + intros j d H. destruct (Nat.eq_dec i j) as [->|N].
      * rewrite (nth_set_nth_eq _ _ _ _ Hc) in H. inversion H; subst. unfold client_ok. simpl. exact Hcnt.
      * rewrite nth_set_nth_neq in H by exact N. exact (I3 _ _ H).
    + intros k j p H. rewrite set_nth_length. exact (I4 _ _ _ H).
  - exact HI.
Qed.

Theorem inv_run ops sched : Inv (jrun ops sched).
Proof.
  unfold jrun.
  assert (G : forall s, Inv s -> Inv (fold_left jstep sched s)).
  { induction sched as [|i r IH]; intros s H; simpl; [exact H|]. apply IH. apply inv_step. exact H. }
  apply G. apply inv_init.
Qed.

(* The operations of the clients never change. *)
Lemma jstep_cop s i j : option_map cop (nth_error (clients (jstep s i)) j) = option_map cop (nth_error (clients s) j).
Proof.
  unfold jstep. destruct (nth_error (clients s) i) as [c|] eqn:Hc; [|reflexivity].
  assert (G : forall c' es h, cop c' = cop c ->
              option_map cop (nth_error (clients (upd s i c' es h)) j) = option_map cop (nth_error (clients s) j)).
  { intros c' es h E. unfold upd. simpl. destruct (Nat.eq_dec i j) as [->|N].
    - rewrite (nth_set_nth_eq _ _ _ _ Hc), Hc. simpl. rewrite E. reflexivity.
    - rewrite nth_set_nth_neq by exact N. reflexivity. }
  destruct (cpc c) as [|a|a|a|ok]; try (apply G; reflexivity); try reflexivity.
  - destruct (jcheck (cop c) (table s a)); apply G; reflexivity.
  - destruct (Nat.eqb (List.length (entries s)) a); [apply G; reflexivity|].
    destruct (Nat.leb max_retries (S (cretries c))); apply G; reflexivity.
Qed.

Lemma jrun_cop ops sched j :
  option_map cop (nth_error (clients (jrun ops sched)) j) = nth_error ops j.
Proof.
  unfold jrun.
  assert (G : forall s, option_map cop (nth_error (clients (fold_left jstep sched s)) j)
                        = option_map cop (nth_error (clients s) j)).
  { induction sched as [|i r IH]; intros s; simpl; [reflexivity|]. rewrite IH. apply jstep_cop. }
  rewrite G. unfold jinit. simpl. rewrite nth_error_map. destruct (nth_error ops j); reflexivity.
Qed.

(* 1. Linearizability of the log: for every number of clients and every
   interleaving, every entry was appended by an operation whose constraint held
   in the state denoted by the entries before it. *)
Theorem journal_log_valid ops sched k i p :
  nth_error (entries (jrun ops sched)) k = Some (i, p) ->
  exists o, nth_error ops i = Some o /\ p = jentry o /\
            jcheck o (map snd (firstn k (entries (jrun ops sched)))) = true.
Proof.
  intros H. destruct (inv_run ops sched) as [_ [I2 _]]. specialize (I2 k).
  unfold entry_ok in I2. rewrite H in I2.
  pose proof (jrun_cop ops sched i) as Hop.
  destruct (nth_error (clients (jrun ops sched)) i) as [c|]; [|destruct I2].
  simpl in Hop. exists (cop c). split; [symmetry; exact Hop|]. exact I2.
Qed.

(* 2. An acknowledged operation owns exactly one entry; an operation that
   reported failure owns none (it leaves no trace in the log). *)
Theorem acked_exactly_once ops sched i c :
  nth_error (clients (jrun ops sched)) i = Some c ->
  (cpc c = PDone true -> count_entries (jrun ops sched) i = 1%nat) /\
  (cpc c = PDone false -> count_entries (jrun ops sched) i = 0%nat).
Proof.
  intros H. destruct (inv_run ops sched) as [_ [_ [I3 _]]]. specialize (I3 _ _ H).
  unfold client_ok in I3. split; intros E; rewrite E in I3; exact I3.
Qed.

(* 3. HEAD never points past the log. *)
Theorem head_within_log ops sched : (head (jrun ops sched) <= List.length (entries (jrun ops sched)))%nat.
Proof. destruct (inv_run ops sched) as [I1 _]. exact I1. Qed.

(* 4. Branch pointer instance: when every operation is "move the branch from
   the expected parent to my new commit", the accepted updates form a single
   chain: each accepted commit's parent is the commit accepted just before it. *)
Theorem branch_single_chain (ups : list (nat * nat)) sched k i p :
  nth_error (entries (jrun (map (fun '(par, new) => branch_update par new) ups) sched)) k = Some (i, p) ->
  exists par, nth_error ups i = Some (par, p) /\
              par = last (map snd (firstn k (entries (jrun (map (fun '(par, new) => branch_update par new) ups) sched)))) 0%nat.
Proof.
  intros H. destruct (journal_log_valid _ _ _ _ _ H) as [o [Ho [Hp Hc]]].
  rewrite nth_error_map in Ho. destruct (nth_error ups i) as [[par new]|] eqn:E; [|discriminate].
  inversion Ho; subst o. simpl in Hp, Hc. subst p. exists par. split; [reflexivity|].
  apply Nat.eqb_eq in Hc. unfold tip_of in Hc. symmetry. exact Hc.
Qed.

(* non-vacuity: two clients racing for the same slot; one is acknowledged, the other retries and lands after it *)
Example journal_example :
  let ops := [branch_update 0 7; {| jcheck := fun _ => true; jentry := 9 |}] in
  let s := jrun ops [0; 1; 0; 1; 0; 1; 0; 1; 1; 1; 1; 1; 1] in
  entries s = [(0, 7); (1, 9)] /\ head s = 2%nat /\ map cpc (clients s) = [PDone true; PDone true].
Proof. vm_compute. repeat split. Qed.
