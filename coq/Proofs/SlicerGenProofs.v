(* Tie T for C08: the Slicer loop over the conditions that go2coq translates
   from meta.Slicer.stash on every run (Gen/SlicerGen.v) is the hand-written
   slice of Model/Par.v; hence the partition theorem holds for the translated
   text. *)
From ZV Require Import Base.Prelude Model.Par Model.StashTable Gen.SlicerGen Proofs.ParProofs.

Definition slice_gen (objs : list obj) : list (list obj) :=
  slice_tbl gen_stash_flush gen_stash_newmin gen_stash_newmax objs [] None None.

Lemma flush_val o smin smax :
  st_cond_val o (Some smin) (Some smax) gen_stash_flush = klt (omax o) smin || klt smax (omin o).
Proof. reflexivity. Qed.
Lemma newmin_some o smin smax :
  st_cond_val o (Some smin) smax gen_stash_newmin = klt (omin o) smin.
Proof. reflexivity. Qed.
Lemma newmax_some o smin smax :
  st_cond_val o smin (Some smax) gen_stash_newmax = klt smax (omax o).
Proof. reflexivity. Qed.
Lemma newmin_none o smax : st_cond_val o None smax gen_stash_newmin = true.
Proof. reflexivity. Qed.
Lemma newmax_none o smin : st_cond_val o smin None gen_stash_newmax = true.
Proof. reflexivity. Qed.

Lemma slice_tbl_gen_ok : forall objs c cur smin smax,
  slice_tbl gen_stash_flush gen_stash_newmin gen_stash_newmax objs (c :: cur) (Some smin) (Some smax)
  = slice_go objs (c :: cur) smin smax.
Proof.
  induction objs as [|o r IH]; intros c cur smin smax; [reflexivity|].
  cbn [slice_tbl slice_go]. rewrite flush_val.
  destruct (klt (omax o) smin || klt smax (omin o)) eqn:Hf.
  - rewrite newmin_none, newmax_none, IH. reflexivity.
  - rewrite newmin_some, newmax_some.
    destruct (klt (omin o) smin), (klt smax (omax o)); rewrite IH; reflexivity.
Qed.

Theorem slice_gen_ok objs : slice_gen objs = slice objs.
Proof.
  unfold slice_gen, slice. destruct objs as [|o r]; [reflexivity|].
  cbn [slice_tbl slice_go]. rewrite newmin_none, newmax_none.
  apply slice_tbl_gen_ok.
Qed.

Theorem slicer_partitions_translated objs :
  sorted omin_le objs -> (forall o, In o objs -> kle (omin o) (omax o) = true) ->
  List.concat (slice_gen objs) = objs /\ obj_parts_ordered (slice_gen objs).
Proof. rewrite slice_gen_ok. apply slicer_partitions. Qed.
