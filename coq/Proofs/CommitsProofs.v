From ZV Require Import Base.Prelude Model.Merge Model.Commits.

Definition extends (s s' : store) : Prop :=
  (forall k v, assoc k (commits s) = Some v -> assoc k (commits s') = Some v) /\
  (forall k v, assoc k (objects s) = Some v -> assoc k (objects s') = Some v).

Lemma extends_refl s : extends s s.
Proof. split; auto. Qed.

Lemma extends_trans a b c : extends a b -> extends b c -> extends a c.
Proof. intros [H1 H2] [H3 H4]. split; auto. Qed.

Lemma wapply_extends s w : extends s (wapply s w).
Proof.
  destruct w as [c o|i v|b c|b]; simpl.
  - destruct (fresh c (commits s) && negb (Nat.eqb c 0)) eqn:E; [|apply extends_refl].
    apply andb_true_iff in E as [E _]. unfold fresh in E.
    split; simpl; [|auto]. intros k v H.
    destruct (Nat.eqb_spec k c) as [->|N]; [rewrite H in E; discriminate | exact H].
  - destruct (fresh i (objects s)) eqn:E; [|apply extends_refl]. unfold fresh in E.
    split; simpl; [auto|]. intros k w H.
    destruct (Nat.eqb_spec k i) as [->|N]; [rewrite H in E; discriminate | exact H].
  - split; simpl; auto.
  - split; simpl; auto.
Qed.

Lemma fold_wapply_extends ws : forall s, extends s (fold_left wapply ws s).
Proof.
  induction ws as [|w r IH]; intros s; simpl; [apply extends_refl|].
  eapply extends_trans; [apply wapply_extends | apply IH].
Qed.

Lemma chain_stable s s' : extends s s' -> forall fuel c l,
  chain s fuel c = Some l -> chain s' fuel c = Some l.
Proof.
  intros [Hc _]. induction fuel as [|f IH]; intros c l H; destruct c as [|c]; simpl in *; try exact H; try discriminate.
  destruct (assoc (S c) (commits s)) as [o|] eqn:E; [|discriminate].
  rewrite (Hc _ _ E).
  destruct (chain s f (cparent o)) as [older|] eqn:E2; [|discriminate].
  rewrite (IH _ _ E2). exact H.
Qed.

Lemma read_objects_stable s s' : extends s s' -> forall ids r,
  read_objects s ids = Some r -> read_objects s' ids = Some r.
Proof.
  intros [_ Ho]. induction ids as [|i t IH]; intros r H; simpl in *; [exact H|].
  destruct (assoc i (objects s)) as [v|] eqn:E; [|discriminate].
  destruct (read_objects s t) as [vs|] eqn:E2; [|discriminate].
  rewrite (Ho _ _ E), (IH _ eq_refl). exact H.
Qed.

Lemma read_commit_stable s s' fuel c r :
  extends s s' -> read_commit s fuel c = Some r -> read_commit s' fuel c = Some r.
Proof.
  intros E H. unfold read_commit, snapshot in *.
  destruct (chain s fuel c) as [l|] eqn:Ec; [|discriminate].
  rewrite (chain_stable _ _ E _ _ _ Ec).
  destruct (play [] (flat_map cacts l)) as [ids|]; [|discriminate].
  eapply read_objects_stable; eauto.
Qed.

(* The data visible at a commit never changes, whatever is written later. *)
Theorem commit_immutable s fuel c r ws :
  read_commit s fuel c = Some r -> read_commit (fold_left wapply ws s) fuel c = Some r.
Proof. intros H. eapply read_commit_stable; [apply fold_wapply_extends | exact H]. Qed.

Lemma read_objects_sched_eq : forall ids s0 s sched r,
  extends s0 s -> read_objects s0 ids = Some r -> read_objects_sched s ids sched = Some r.
Proof.
  induction ids as [|i t IH]; intros s0 s sched r E H; simpl in *; [exact H|].
  destruct (assoc i (objects s0)) as [v|] eqn:Ev; [|discriminate].
  destruct (read_objects s0 t) as [vs|] eqn:Et; [|discriminate].
  destruct sched as [|ws sched'].
  - simpl. destruct E as [Ec Eo]. rewrite (Eo _ _ Ev).
    rewrite (IH s0 s [] vs (conj Ec Eo) Et). exact H.
  - set (s' := fold_left wapply ws s).
    assert (E' : extends s0 s') by (eapply extends_trans; [exact E | apply fold_wapply_extends]).
    destruct E' as [Ec Eo]. rewrite (Eo _ _ Ev).
    rewrite (IH s0 s' sched' vs (conj Ec Eo) Et). exact H.
Qed.

(* A reader that resolved its branch to commit c sees exactly c's data, for
   every placement of writers' steps between its own steps. *)
Theorem reader_isolated s fuel b c r before sched :
  assoc b (branches s) = Some c ->
  read_commit s fuel c = Some r ->
  reader s fuel b before sched = Some r.
Proof.
  intros Hb H. unfold reader. rewrite Hb.
  set (s1 := fold_left wapply before s).
  assert (E : extends s s1) by apply fold_wapply_extends.
  unfold read_commit in H.
  destruct (snapshot s fuel c) as [ids|] eqn:Es; [|discriminate].
  assert (Es1 : snapshot s1 fuel c = Some ids).
  { unfold snapshot in *. destruct (chain s fuel c) as [l|] eqn:Ec; [|discriminate].
    rewrite (chain_stable _ _ E _ _ _ Ec). exact Es. }
  rewrite Es1. eapply read_objects_sched_eq; eauto.
Qed.

(* Two queries that start after a commit is acknowledged (its object stored
   and the branch pointer moved) both see it, whatever else is written later
   to other keys. *)
Theorem read_your_commit s fuel b c r ws1 ws2 sched1 sched2 :
  assoc b (branches s) = Some c ->
  read_commit s fuel c = Some r ->
  reader s fuel b ws1 sched1 = Some r /\ reader s fuel b ws2 sched2 = Some r.
Proof. intros Hb H. split; eapply reader_isolated; eauto. Qed.

Example commit_example :
  let s0 := {| commits := []; objects := []; branches := [] |} in
  let s := fold_left wapply
             [WPutObject 7 [1; 2]; WPutCommit 1 {| cparent := 0; cacts := [AAdd 7] |}; WSetBranch 0 1] s0 in
  read_commit s 5 1 = Some [[1; 2]] /\
  reader s 5 0 [WPutObject 8 [3]; WPutCommit 2 {| cparent := 1; cacts := [ADel 7; AAdd 8] |}; WSetBranch 0 2]
         [[WPutObject 7 [9; 9]]] = Some [[1; 2]].
Proof. vm_compute. split; reflexivity. Qed.
