(* Crash safety of the journal protocol on a store with atomic puts (C17).
   A crash of a client is: that client takes no more steps.  The theorems of
   JournalProofs hold for EVERY schedule, in particular for every schedule in
   which any set of clients stops at any point of its protocol; operations
   issued after a restart are clients that are first scheduled later.  What is
   added here is usability: after any such history, an operation run alone
   completes and is acknowledged. *)
From ZV Require Import Base.Prelude Model.Journal Proofs.JournalProofs.

Lemma jrun_app ops a b : jrun ops (a ++ b) = fold_left jstep b (jrun ops a).
Proof. unfold jrun. apply fold_left_app. Qed.

Lemma upd_nth s i c es h c0 :
  nth_error (clients s) i = Some c0 -> nth_error (clients (upd s i c es h)) i = Some c.
Proof. intros H. unfold upd. simpl. eapply nth_set_nth_eq; eauto. Qed.

(* An operation run alone from ANY reachable state (whatever other clients did,
   wherever they stopped or died) is acknowledged after four storage steps,
   provided its constraint holds on the current log. *)
Theorem solo_run_succeeds s i c :
  nth_error (clients s) i = Some c -> cpc c = PStart ->
  jcheck (cop c) (map snd (entries s)) = true ->
  let s' := fold_left jstep [i; i; i; i] s in
  entries s' = entries s ++ [(i, jentry (cop c))] /\
  head s' = List.length (entries s') /\
  exists c', nth_error (clients s') i = Some c' /\ cpc c' = PDone true /\ cop c' = cop c.
Proof.
  intros Hc Hpc Hck. simpl.
  (* step 1: read HEAD and probe *)
  set (c1 := {| cop := cop c; cpc := PLoaded (List.length (entries s)); cretries := cretries c |}).
  assert (E1 : jstep s i = upd s i c1 (entries s) (head s)).
  { unfold jstep. rewrite Hc, Hpc. reflexivity. }
  rewrite E1.
  set (s1 := upd s i c1 (entries s) (head s)).
  assert (H1 : nth_error (clients s1) i = Some c1) by (eapply upd_nth; eauto).
  (* step 2: constraint *)
  set (c2 := {| cop := cop c; cpc := PChecked (List.length (entries s)); cretries := cretries c |}).
  assert (E2 : jstep s1 i = upd s1 i c2 (entries s) (head s)).
  { unfold jstep. rewrite H1. simpl. unfold table. simpl. rewrite firstn_all, Hck. reflexivity. }
  rewrite E2.
  set (s2 := upd s1 i c2 (entries s) (head s)).
  assert (H2 : nth_error (clients s2) i = Some c2) by (eapply upd_nth; eauto).
  (* step 3: PutIfNotExists succeeds: the slot after the last entry is free *)
  set (c3 := {| cop := cop c; cpc := PWroteEntry (List.length (entries s)); cretries := cretries c |}).
  assert (E3 : jstep s2 i = upd s2 i c3 (entries s ++ [(i, jentry (cop c))]) (head s)).
  { unfold jstep. rewrite H2. simpl. rewrite Nat.eqb_refl. reflexivity. }
  rewrite E3.
  set (s3 := upd s2 i c3 (entries s ++ [(i, jentry (cop c))]) (head s)).
  assert (H3 : nth_error (clients s3) i = Some c3) by (eapply upd_nth; eauto).
  (* step 4: HEAD *)
  set (c4 := {| cop := cop c; cpc := PDone true; cretries := cretries c |}).
  assert (E4 : jstep s3 i = upd s3 i c4 (entries s ++ [(i, jentry (cop c))]) (S (List.length (entries s)))).
  { unfold jstep. rewrite H3. reflexivity. }
  rewrite E4. simpl. split; [reflexivity|]. split.
  - rewrite app_length. simpl. lia.
  - exists c4. split; [eapply nth_set_nth_eq; exact H3 | split; reflexivity].
Qed.

(* Corollary in terms of runs: after any schedule (any interleaving, any
   crashes), a client that has not started yet, scheduled alone, is acknowledged. *)
Theorem followup_succeeds ops sched i c :
  nth_error (clients (jrun ops sched)) i = Some c -> cpc c = PStart ->
  jcheck (cop c) (map snd (entries (jrun ops sched))) = true ->
  let s' := jrun ops (sched ++ [i; i; i; i]) in
  entries s' = entries (jrun ops sched) ++ [(i, jentry (cop c))] /\
  exists c', nth_error (clients s') i = Some c' /\ cpc c' = PDone true.
Proof.
  intros Hc Hpc Hck. simpl. rewrite jrun_app.
  destruct (solo_run_succeeds _ _ _ Hc Hpc Hck) as [E [_ [c' [Hn [Hd _]]]]].
  split; [exact E|]. exists c'. split; assumption.
Qed.

(* All-or-nothing: at every moment of every history, a client owns no entry or
   exactly one; it owns one exactly when its PutIfNotExists went through. *)
Theorem crash_atomic ops sched i c :
  nth_error (clients (jrun ops sched)) i = Some c ->
  count_entries (jrun ops sched) i = match cpc c with PWroteEntry _ | PDone true => 1%nat | _ => 0%nat end.
Proof.
  intros H. destruct (inv_run ops sched) as [_ [_ [I3 _]]]. specialize (I3 _ _ H).
  unfold client_ok in I3. destruct (cpc c) as [|a|a|a|[|]]; try tauto; exact I3.
Qed.

(* A client that died between writing its entry and moving HEAD: the log has
   its entry, HEAD lags -- and a follow-up operation still succeeds, because
   HEAD is only a hint. *)
Example crash_between_entry_and_head :
  let ops := [{| jcheck := fun _ => true; jentry := 5 |}; {| jcheck := fun _ => true; jentry := 6 |}] in
  let s := jrun ops [0; 0; 0] in                      (* client 0 dies after PutIfNotExists *)
  head s = 0%nat /\ entries s = [(0, 5)] /\
  let s' := jrun ops ([0; 0; 0] ++ [1; 1; 1; 1]) in
  entries s' = [(0, 5); (1, 6)] /\ head s' = 2%nat.
Proof. vm_compute. repeat split. Qed.
