(* C20  Proofs about the model of the fuse operator (Model/Fuse.v). *)
From ZV Require Import Base.Prelude Model.Fuse.

(* ---------------------------------------------------------------- induction principle for the nested type *)

Section TyInd.
  Variable P : ty -> Prop.
  Hypothesis HPrim : forall id, P (TPrim id).
  Hypothesis HRec : forall fs, Forall (fun nt => P (snd nt)) fs -> P (TRec fs).
  Hypothesis HArr : forall e, P e -> P (TArr e).
  Hypothesis HSet : forall e, P e -> P (TSet e).
  Hypothesis HMap : forall k v, P k -> P v -> P (TMap k v).
  Hypothesis HUnion : forall ts, Forall P ts -> P (TUnion ts).
  Hypothesis HNamed : forall n t, P t -> P (TNamed n t).

  Fixpoint ty_ind2 (t : ty) : P t :=
    match t with
    | TPrim id => HPrim id
    | TRec fs =>
      HRec fs ((fix go (l : list (string * ty)) : Forall (fun nt => P (snd nt)) l :=
                  match l with
                  | [] => Forall_nil _
                  | x :: r => Forall_cons x (ty_ind2 (snd x)) (go r)
                  end) fs)
    | TArr e => HArr e (ty_ind2 e)
    | TSet e => HSet e (ty_ind2 e)
    | TMap k v => HMap k v (ty_ind2 k) (ty_ind2 v)
    | TUnion ts =>
      HUnion ts ((fix go (l : list ty) : Forall P l :=
                    match l with
                    | [] => Forall_nil _
                    | x :: r => Forall_cons x (ty_ind2 x) (go r)
                    end) ts)
    | TNamed n t' => HNamed n t' (ty_ind2 t')
    end.
End TyInd.

Lemma ty_eqb_refl : forall t, ty_eqb t t = true.
Proof.
  induction t using ty_ind2; simpl; auto.
  - apply N.eqb_refl.
  - induction H as [|[n t] r Hx Hr IH]; simpl; auto.
    rewrite String.eqb_refl. simpl in Hx. rewrite Hx. simpl. exact IH.
  - rewrite IHt1, IHt2. reflexivity.
  - induction H as [|x r Hx Hr IH]; simpl; auto. rewrite Hx. exact IH.
  - rewrite String.eqb_refl. simpl. exact IHt.
Qed.

Lemma ty_eqb_true : forall a b, ty_eqb a b = true -> a = b.
Proof.
  induction a using ty_ind2; destruct b; simpl; intros E; try discriminate.
  - apply N.eqb_eq in E. congruence.
  - f_equal. revert fs0 E.
    induction H as [|[n t] r Hx Hr IH]; intros [|[n' t'] r'] E; try discriminate; auto.
    apply andb_true_iff in E as [E E3]. apply andb_true_iff in E as [E1 E2].
    apply String.eqb_eq in E1. simpl in Hx. apply Hx in E2. subst.
    f_equal. apply IH. exact E3.
  - f_equal. auto.
  - f_equal. auto.
  - apply andb_true_iff in E as [E1 E2]. f_equal; auto.
  - f_equal. revert ts0 E.
    induction H as [|x r Hx Hr IH]; intros [|y r'] E; try discriminate; auto.
    apply andb_true_iff in E as [E1 E2]. f_equal; auto.
  - apply andb_true_iff in E as [E1 E2]. apply String.eqb_eq in E1. f_equal; auto.
Qed.

Lemma ty_eqb_eq a b : ty_eqb a b = true <-> a = b.
Proof. split; [apply ty_eqb_true | intros ->; apply ty_eqb_refl]. Qed.

Lemma under_idem t : under (under t) = under t.
Proof. induction t; simpl; auto. Qed.

Lemma under_not_named t n t' : under t <> TNamed n t'.
Proof. induction t; simpl; try discriminate. exact IHt. Qed.

(* ---------------------------------------------------------------- buffering and spilling: the stored list is the input list *)

Section SpillProofs.
  Variable file : Type.
  Variable file_empty : file.
  Variable file_write : file -> tv -> file.
  Variable file_read : file -> list tv.
  Variable vsize : tv -> nat.
  (* C01 / spill.File: what was written is read back, in order *)
  Hypothesis file_roundtrip : forall l, file_read (fold_left file_write l file_empty) = l.

  Definition buf_inv (pre : list tv) (b : fbuf file) : Prop :=
    match spiller file b with
    | Some f => f = fold_left file_write pre file_empty
    | None => vals file b = pre
    end.

  Lemma fuser_write_inv mem pre b x :
    buf_inv pre b -> buf_inv (pre ++ [x]) (fuser_write file file_empty file_write vsize mem b x).
  Proof.
    unfold buf_inv, fuser_write. destruct (spiller file b) as [f|] eqn:S; simpl.
    - intros ->. rewrite fold_left_app. reflexivity.
    - intros E. destruct (Nat.leb mem (nbytes file b + vsize x)); simpl.
      + rewrite fold_left_app, E. reflexivity.
      + rewrite E. reflexivity.
  Qed.

  Lemma fuser_fold_inv mem : forall vs pre b,
    buf_inv pre b ->
    buf_inv (pre ++ vs) (fold_left (fuser_write file file_empty file_write vsize mem) vs b).
  Proof.
    induction vs as [|x r IH]; intros pre b I; simpl.
    - rewrite app_nil_r. exact I.
    - replace (pre ++ x :: r) with ((pre ++ [x]) ++ r) by (rewrite <- app_assoc; reflexivity).
      apply IH. apply fuser_write_inv. exact I.
  Qed.

  Lemma fuser_stored_id mem vs :
    fuser_stored file file_empty file_write file_read vsize mem vs = vs.
  Proof.
    unfold fuser_stored.
    pose proof (fuser_fold_inv mem vs [] {| nbytes := 0; vals := []; spiller := None |} eq_refl) as I.
    unfold buf_inv in I. simpl in I.
    destruct (spiller file _) as [f|].
    - rewrite I. apply file_roundtrip.
    - exact I.
  Qed.

  Lemma fuse_op_spill_invariant fuel mem mem' vs :
    fuse_op file file_empty file_write file_read vsize fuel mem vs =
    fuse_op file file_empty file_write file_read vsize fuel mem' vs.
  Proof. unfold fuse_op. rewrite !fuser_stored_id. reflexivity. Qed.

  Lemma fuse_op_eq fuel mem vs :
    fuse_op file file_empty file_write file_read vsize fuel mem vs =
    match fuser_type fuel vs with None => [] | Some T => shape_all fuel T [] vs end.
  Proof. unfold fuse_op. rewrite fuser_stored_id. reflexivity. Qed.
End SpillProofs.

(* ---------------------------------------------------------------- count and order *)

Lemma shape_all_length fuel T : forall vs c, List.length (shape_all fuel T c vs) = List.length vs.
Proof.
  induction vs as [|x r IH]; intros c; simpl; auto.
  destruct (shaper_eval fuel T c x) as [c' y]. simpl. f_equal. apply IH.
Qed.

(* the cache after a prefix *)
Fixpoint cache_after (fuel : nat) (T : ty) (c : cache) (vs : list tv) : cache :=
  match vs with
  | [] => c
  | x :: r => cache_after fuel T (fst (shaper_eval fuel T c x)) r
  end.

Lemma shape_all_app fuel T : forall a b c,
  shape_all fuel T c (a ++ b) = shape_all fuel T c a ++ shape_all fuel T (cache_after fuel T c a) b.
Proof.
  induction a as [|x r IH]; intros b c; simpl; auto.
  destruct (shaper_eval fuel T c x) as [c' y] eqn:E. simpl. f_equal. apply IH.
Qed.

(* the k-th output is the shaper applied to the k-th input *)
Lemma shape_all_nth fuel T : forall a x b c,
  nth_error (shape_all fuel T c (a ++ x :: b)) (List.length a) =
  Some (snd (shaper_eval fuel T (cache_after fuel T c a) x)).
Proof.
  intros. rewrite shape_all_app. rewrite nth_error_app2; rewrite shape_all_length; [|lia].
  rewrite Nat.sub_diag. simpl. destruct (shaper_eval fuel T _ x). reflexivity.
Qed.

Lemma fuser_mix_some fuel : forall ts st,
  (snd st = None -> fst st = []) -> (ts <> [] \/ snd st <> None) ->
  snd (fold_left (fuser_mix fuel) ts st) <> None.
Proof.
  induction ts as [|t r IH]; intros [seen cur] I H; simpl in *.
  - destruct H as [H|H]; [congruence | exact H].
  - destruct (mem_ty t seen) eqn:M.
    + apply IH; simpl; auto. right. intros E. rewrite (I E) in M. discriminate.
    + apply IH; simpl.
      * destruct cur; discriminate.
      * right. destruct cur; discriminate.
Qed.

Lemma fuser_type_some fuel vs : vs <> [] -> exists T, fuser_type fuel vs = Some T.
Proof.
  intros NE. unfold fuser_type.
  pose proof (fuser_mix_some fuel (map fst vs) ([], None)) as H. simpl in H.
  destruct (snd (fold_left (fuser_mix fuel) (map fst vs) ([], None))) as [T|].
  - eauto.
  - exfalso. apply H; auto. left. destruct vs; [congruence | discriminate].
Qed.

(* ---------------------------------------------------------------- the operator's type is the aggregate's *)

Lemma index_of_ty_app t : forall l x,
  is_some (index_of_ty t (l ++ [x])) = is_some (index_of_ty t l) || ty_eqb x t.
Proof.
  induction l as [|y r IH]; intros x; simpl.
  - destruct (ty_eqb x t); reflexivity.
  - destruct (ty_eqb y t); simpl; auto.
    specialize (IH x).
    destruct (index_of_ty t (r ++ [x])), (index_of_ty t r); simpl in *; auto.
Qed.

Lemma fuser_agg_gen fuel : forall ts shapes seen cur,
  (forall t, mem_ty t seen = is_some (index_of_ty t shapes)) ->
  cur = fold_left (mixin fuel) shapes None ->
  snd (fold_left (fuser_mix fuel) ts (seen, cur)) =
  fold_left (mixin fuel) (fold_left agg_consume ts shapes) None.
Proof.
  induction ts as [|t r IH]; intros shapes seen cur HM HC; simpl; auto.
  unfold agg_consume at 2. rewrite (HM t).
  destruct (index_of_ty t shapes) as [k|] eqn:E; simpl.
  - apply IH; auto.
  - apply IH.
    + intros t'. simpl. rewrite index_of_ty_app, HM, orb_comm. reflexivity.
    + rewrite fold_left_app. simpl. rewrite <- HC. reflexivity.
Qed.

Lemma fuser_type_is_agg_type fuel vs : fuser_type fuel vs = agg_type fuel (map fst vs).
Proof. unfold fuser_type, agg_type. apply fuser_agg_gen; auto. Qed.

(* ---------------------------------------------------------------- soundness of the shaper's steps *)

Lemma leaves_under t v p : leaves t v p = leaves (under t) v p.
Proof. destruct v; simpl; rewrite ?under_idem; reflexivity. Qed.

Lemma has_ty_under v t : has_ty v t = has_ty v (under t).
Proof. destruct v; simpl; unfold is_prim, is_null; rewrite ?under_idem; reflexivity. Qed.

Lemma wf_under t : wf_ty t = wf_ty (under t).
Proof. induction t; simpl; auto. Qed.

Lemma eq_under_leaves a b v p : eq_under a b = true -> leaves a v p = leaves b v p.
Proof.
  unfold eq_under. intros E. apply ty_eqb_true in E.
  rewrite (leaves_under a), (leaves_under b), E. reflexivity.
Qed.

Lemma null_has_ty t x : is_null t = true -> has_ty x t = true -> x = VNull.
Proof.
  unfold is_null. intros N H. destruct x; simpl in H; auto.
  - apply andb_true_iff in H as [_ H]. unfold is_null in H. rewrite N in H. discriminate.
  - destruct (under t); discriminate.
  - destruct (under t); discriminate.
Qed.

Lemma find_index_spec {A} (q : A -> bool) : forall l k,
  find_index q l = Some k -> exists x, nth_error l k = Some x /\ q x = true.
Proof.
  induction l as [|y r IH]; simpl; intros k E; try discriminate.
  destruct (q y) eqn:Q.
  - inversion E; subst. exists y. auto.
  - destruct (find_index q r) as [k'|]; try discriminate. inversion E; subst.
    simpl. apply IH. reflexivity.
Qed.

Lemma best_union_tag_spec i o tag :
  best_union_tag i o = Some tag ->
  exists ts m, under o = TUnion ts /\ nth_error ts tag = Some m /\ under m = under i.
Proof.
  unfold best_union_tag. destruct (under o) as [| | | | |ts|] eqn:U; try discriminate.
  intros E. exists ts.
  destruct (find_index (ty_eqb i) ts) as [k|] eqn:F1.
  { inversion E; subst. apply find_index_spec in F1 as [m [N Q]]. apply ty_eqb_true in Q. subst. eauto. }
  destruct (find_index (ty_eqb (under i)) ts) as [k|] eqn:F2.
  { inversion E; subst. apply find_index_spec in F2 as [m [N Q]]. apply ty_eqb_true in Q. subst.
    exists (under i). rewrite under_idem. auto. }
  apply find_index_spec in E as [m [N Q]]. apply ty_eqb_true in Q. eauto.
Qed.

Lemma map_opt_Forall2 {A B} (f : A -> option B) : forall l l',
  map_opt f l = Some l' -> Forall2 (fun x y => f x = Some y) l l'.
Proof.
  induction l as [|x r IH]; simpl; intros l' E.
  - inversion E. constructor.
  - destruct (f x) eqn:Fx; try discriminate.
    destruct (map_opt f r) eqn:Mr; try discriminate. inversion E; subst.
    constructor; auto.
Qed.

Lemma Forall2_nth_l {A B} (R : A -> B -> Prop) : forall l l' k x,
  Forall2 R l l' -> nth_error l k = Some x -> exists y, nth_error l' k = Some y /\ R x y.
Proof.
  intros l l' k x H. revert k. induction H; intros [|k] E; simpl in *; try discriminate.
  - inversion E; subst. eauto.
  - apply IHForall2. exact E.
Qed.

Lemma Forall2_in_r {A B} (R : A -> B -> Prop) : forall l l' y,
  Forall2 R l l' -> In y l' -> exists x, In x l /\ R x y.
Proof.
  intros l l' y H. induction H; simpl; intros I; [contradiction|].
  destruct I as [->|I]; [eauto|]. destruct (IHForall2 I) as [x0 [I0 R0]]. eauto.
Qed.

Lemma new_step_to : forall F i o s, new_step F i o = Some s -> step_to s = o.
Proof.
  destruct F as [|f]; simpl; intros i o s E; try discriminate.
  destruct (is_null i). { inversion E; reflexivity. }
  destruct (eq_under i o). { inversion E; reflexivity. }
  assert (T : forall x, tag_step i o = Some x -> step_to x = o).
  { unfold tag_step. intros x. destruct (best_union_tag i o); intros X; inversion X; reflexivity. }
  assert (G : (if is_prim i && is_prim o then Some (SCastPrim i o)
               else match inner i with
                    | Some ii =>
                      match under o with
                      | TArr oi => option_map (SArr o) (new_step f ii oi)
                      | TSet oi => option_map (SSet o) (new_step f ii oi)
                      | _ => tag_step i o
                      end
                    | None =>
                      match under i with
                      | TUnion ts =>
                        match map_opt (fun t => new_step f t o) ts with
                        | Some cs => Some (SFromUnion o cs)
                        | None => tag_step i o
                        end
                      | _ => tag_step i o
                      end
                    end) = Some s -> step_to s = o).
  { destruct (is_prim i && is_prim o). { intros X; inversion X; reflexivity. }
    destruct (inner i).
    - destruct (under o); auto;
        destruct (new_step f t _); simpl; intros X; inversion X; reflexivity.
    - destruct (under i); auto.
      destruct (map_opt _ ts); auto. intros X; inversion X; reflexivity. }
  destruct (under i); auto.
  destruct (under o); auto.
  destruct (rec_children _ fs fs0); simpl in E; inversion E; reflexivity.
Qed.

Lemma new_step_SNull : forall F i o t, new_step F i o = Some (SNull t) -> is_null i = true.
Proof.
  destruct F as [|f]; simpl; intros i o t E; try discriminate.
  destruct (is_null i); auto.
  destruct (eq_under i o); try discriminate.
  assert (T : forall t, tag_step i o <> Some (SNull t)).
  { unfold tag_step. intros t0. destruct (best_union_tag i o); discriminate. }
  assert (G : (if is_prim i && is_prim o then Some (SCastPrim i o)
               else match inner i with
                    | Some ii =>
                      match under o with
                      | TArr oi => option_map (SArr o) (new_step f ii oi)
                      | TSet oi => option_map (SSet o) (new_step f ii oi)
                      | _ => tag_step i o
                      end
                    | None =>
                      match under i with
                      | TUnion ts =>
                        match map_opt (fun t => new_step f t o) ts with
                        | Some cs => Some (SFromUnion o cs)
                        | None => tag_step i o
                        end
                      | _ => tag_step i o
                      end
                    end) <> Some (SNull t)).
  { destruct (is_prim i && is_prim o); try discriminate.
    destruct (inner i).
    - destruct (under o); auto; destruct (new_step f t0 _); simpl; discriminate.
    - destruct (under i); auto. destruct (map_opt _ ts); auto. discriminate. }
  destruct (under i); try (exfalso; apply G; exact E).
  destruct (under o); try (exfalso; apply G; exact E).
  destruct (rec_children _ fs fs0); simpl in E; discriminate.
Qed.

(* --- lists of leaves *)

Lemma leaves_rec_In lv p lf : forall fs l,
  In lf (leaves_rec lv p fs l) <->
  exists k n ft x, nth_error fs k = Some (n, ft) /\ nth_error l k = Some x /\
                   In lf (lv ft x (p ++ [PField n])).
Proof.
  intros fs l. revert fs. induction l as [|x l IH]; intros [|[n ft] fs]; simpl.
  - split; [contradiction|]. intros (k & n & ft & x & _ & E & _). destruct k; discriminate.
  - split; [contradiction|]. intros (k & n0 & ft0 & x & _ & E & _). destruct k; discriminate.
  - split; [contradiction|]. intros (k & n & ft & x0 & E & _ & _). destruct k; discriminate.
  - rewrite in_app_iff, IH. split.
    + intros [H|(k & n0 & ft0 & x0 & E1 & E2 & H)].
      * exists O, n, ft, x. auto.
      * exists (S k), n0, ft0, x0. auto.
    + intros (k & n0 & ft0 & x0 & E1 & E2 & H). destruct k as [|k]; simpl in *.
      * inversion E1; inversion E2; subst. auto.
      * right. exists k, n0, ft0, x0. auto.
Qed.

Lemma leaves_arr_In lv p e lf : forall l k0,
  In lf (leaves_arr lv p e l k0) <->
  exists j x, nth_error l j = Some x /\ In lf (lv e x (p ++ [PIdx (k0 + j)])).
Proof.
  induction l as [|x l IH]; intros k0; simpl.
  - split; [contradiction|]. intros (j & x & E & _). destruct j; discriminate.
  - rewrite in_app_iff, IH. split.
    + intros [H|(j & x0 & E & H)].
      * exists O, x. rewrite Nat.add_0_r. auto.
      * exists (S j), x0. rewrite Nat.add_succ_r. auto.
    + intros (j & x0 & E & H). destruct j as [|j]; simpl in *.
      * inversion E; subst. rewrite Nat.add_0_r in H. auto.
      * right. exists j, x0. rewrite Nat.add_succ_r in H. auto.
Qed.

Lemma has_ty_rec_nth ht : forall fs l,
  has_ty_rec ht fs l = true ->
  List.length fs = List.length l /\
  forall k n t x, nth_error fs k = Some (n, t) -> nth_error l k = Some x -> ht x t = true.
Proof.
  intros fs l. revert fs. induction l as [|x l IH]; intros [|[n t] fs]; simpl; intros H; try discriminate.
  - split; auto. intros k; destruct k; discriminate.
  - apply andb_true_iff in H as [H1 H2]. destruct (IH _ H2) as [L G]. split; [congruence|].
    intros [|k] n0 t0 x0 E1 E2; simpl in *.
    + inversion E1; inversion E2; subst. exact H1.
    + eapply G; eauto.
Qed.

(* --- field lookups *)

Lemma index_field_spec n : forall fs k t,
  index_field n fs = Some (k, t) ->
  nth_error fs k = Some (n, t) /\ lookup_field n fs = Some t.
Proof.
  induction fs as [|[n' t'] r IH]; simpl; intros k t E; try discriminate.
  destruct (String.eqb n' n) eqn:Q.
  - inversion E; subst. apply String.eqb_eq in Q. subst. auto.
  - destruct (index_field n r) as [[k' t'']|]; try discriminate. inversion E; subst.
    simpl. apply IH. reflexivity.
Qed.

Lemma mem_str_nth n : forall l k, nth_error l k = Some n -> mem_str n l = true.
Proof.
  induction l as [|x r IH]; intros [|k] E; simpl in *; try discriminate.
  - inversion E; subst. rewrite String.eqb_refl. reflexivity.
  - rewrite (IH _ E). apply orb_true_r.
Qed.

Lemma index_field_nodup n : forall fs k t,
  nodup_str (map fst fs) = true -> nth_error fs k = Some (n, t) -> index_field n fs = Some (k, t).
Proof.
  induction fs as [|[n' t'] r IH]; intros [|k] t ND E; simpl in *; try discriminate.
  - inversion E; subst. rewrite String.eqb_refl. reflexivity.
  - apply andb_true_iff in ND as [N1 N2].
    destruct (String.eqb n' n) eqn:Q.
    + apply String.eqb_eq in Q. subst.
      assert (M : mem_str n (map fst r) = true).
      { apply (mem_str_nth n _ k). rewrite nth_error_map, E. reflexivity. }
      rewrite M in N1. discriminate.
    + rewrite (IH _ _ N2 E). reflexivity.
Qed.

Lemma has_field_nth n : forall fs, has_field n fs = true -> exists k t, nth_error fs k = Some (n, t).
Proof.
  unfold has_field. induction fs as [|[n' t'] r IH]; simpl; intros H; try discriminate.
  destruct (String.eqb n' n) eqn:Q.
  - apply String.eqb_eq in Q. subst. exists O, t'. reflexivity.
  - destruct (IH H) as (k & t & E). exists (S k), t. exact E.
Qed.

(* --- unique types of a constant list *)

Lemma insert_const fuel x : forall l, Forall (eq x) l -> Forall (eq x) (insert_stable fuel x l).
Proof.
  induction l as [|y r IH]; simpl; intros H.
  - constructor; auto.
  - inversion H; subst. destruct (cmp_ty fuel y y); repeat constructor; auto.
Qed.

Lemma sort_const fuel x : forall l, Forall (eq x) l -> Forall (eq x) (sort_tys fuel l).
Proof.
  unfold sort_tys. induction l as [|y r IH]; simpl; intros H; [constructor|].
  inversion H; subst. apply insert_const. auto.
Qed.

Lemma insert_nonempty fuel x l : insert_stable fuel x l <> [].
Proof. destruct l; simpl; [discriminate|]. destruct (cmp_ty fuel t x); discriminate. Qed.

Lemma dedup_const x : forall l, l <> [] -> Forall (eq x) l -> dedup_adj l = [x].
Proof.
  induction l as [|y r IH]; intros NE H; [congruence|].
  inversion H; subst. destruct r as [|z r'].
  - reflexivity.
  - inversion H3; subst. simpl. rewrite ty_eqb_refl. apply IH; auto. discriminate.
Qed.

Lemma unique_types_const fuel x l :
  Forall (eq x) l -> unique_types fuel l = match l with [] => [] | _ => [x] end.
Proof.
  intros H. unfold unique_types. destruct l as [|y r]; [reflexivity|].
  apply dedup_const.
  - unfold sort_tys. simpl. apply insert_nonempty.
  - apply sort_const. exact H.
Qed.

Lemma pick_nth_spec {A} (f : step -> A) d : forall cs k,
  pick_nth f d cs k = match nth_error cs k with Some c => f c | None => d end.
Proof.
  induction cs as [|c r IH]; intros [|k]; simpl; auto.
Qed.

(* --- the step built for (i, o) carries a well-typed value of type i into type o without loss *)

Definition sound_at (cf : nat) (i o : ty) (s : step) : Prop :=
  forall v p, has_ty v i = true ->
    fst (build cf s v) = o /\
    (forall lf, In lf (leaves o (snd (build cf s v)) p) <-> In lf (leaves i v p)).

Definition IHsound (cf f : nat) : Prop :=
  forall F' i o s, fits f i o = true -> new_step F' i o = Some s -> step_ok s = true ->
                   wf_ty i = true -> sound_at cf i o s.

Lemma null_sound cf i o : is_null i = true -> sound_at cf i o (SNull o).
Proof.
  intros N v p HT. rewrite (null_has_ty _ _ N HT). simpl. split; [reflexivity | tauto].
Qed.

Lemma copy_sound cf i o : eq_under i o = true -> sound_at cf i o (SCopy o).
Proof.
  intros E v p HT.
  assert (B : build cf (SCopy o) v = (o, v)) by (destruct v; reflexivity).
  rewrite B. simpl. split; [reflexivity|]. rewrite (eq_under_leaves _ _ v p E). tauto.
Qed.

Lemma leaves_union o ts tag m v p :
  under o = TUnion ts -> nth_error ts tag = Some m -> leaves o (VUnion tag v) p = leaves m v p.
Proof. intros U N. simpl. rewrite U, N. reflexivity. Qed.

Lemma tag_sound cf i o s : tag_step i o = Some s -> sound_at cf i o s.
Proof.
  unfold tag_step. destruct (best_union_tag i o) as [tag|] eqn:B; intros E; inversion E; subst.
  apply best_union_tag_spec in B as (ts & m & Uo & N & Um).
  intros v p HT.
  assert (L : forall lf, In lf (leaves o (VUnion tag v) p) <-> In lf (leaves i v p)).
  { intros lf. rewrite (leaves_union _ _ _ _ _ _ Uo N), (leaves_under m), Um, <- (leaves_under i). tauto. }
  destruct v as [|b|l|tg x].
  - simpl. split; [reflexivity | tauto].
  - assert (Bd : build cf (SToUnion tag o) (VPrim b) = (o, VUnion tag (VPrim b))) by reflexivity.
    rewrite Bd. cbn [fst snd]. split; [reflexivity | exact L].
  - assert (Bd : build cf (SToUnion tag o) (VList l) = (o, VUnion tag (VList l))) by reflexivity.
    rewrite Bd. cbn [fst snd]. split; [reflexivity | exact L].
  - assert (Bd : build cf (SToUnion tag o) (VUnion tg x) = (o, VUnion tag (VUnion tg x))) by reflexivity.
    rewrite Bd. cbn [fst snd]. split; [reflexivity | exact L].
Qed.

Lemma nth_has_ty fi l k n it :
  has_ty_rec has_ty fi l = true -> nth_error fi k = Some (n, it) -> has_ty (nth k l VNull) it = true.
Proof.
  intros H E. destruct (has_ty_rec_nth _ _ _ H) as [_ G].
  destruct (nth_error l k) as [x|] eqn:N.
  - rewrite (nth_error_nth _ _ _ N). eapply G; eauto.
  - rewrite nth_overflow; [reflexivity|]. apply nth_error_None. exact N.
Qed.

Definition rec_g (cf : nat) (l : list val) (ic : nat * step) : ty * val * bool :=
  let '(ind, c) := ic in
  match c with
  | SNull t => (t, VNull, false)
  | _ => let r := build cf c (nth ind l VNull) in
         if eq_under (fst r) (step_to c) then (step_to c, snd r, false) else (fst r, snd r, true)
  end.

Lemma build_rec cf o cs l :
  build cf (SRec o cs) (VList l) =
  let rs := map (rec_g cf l) cs in
  ((if existsb (fun x => snd x) rs
    then TRec (combine (field_names o) (map (fun x => fst (fst x)) rs)) else o),
   VList (map (fun x => snd (fst x)) rs)).
Proof. reflexivity. Qed.

Lemma rec_g_cases cf l ind c :
  (exists t, c = SNull t /\ rec_g cf l (ind, c) = (t, VNull, false)) \/
  rec_g cf l (ind, c) =
  (let r := build cf c (nth ind l VNull) in
   if eq_under (fst r) (step_to c) then (step_to c, snd r, false) else (fst r, snd r, true)).
Proof. destruct c; simpl; eauto. Qed.

Opaque rec_g.

Lemma rec_sound cf f f' i o fi fo cs :
  IHsound cf f ->
  under i = TRec fi -> under o = TRec fo ->
  forallb (fun nt : string * ty =>
             match lookup_field (fst nt) fi with Some it => fits f it (snd nt) | None => true end) fo = true ->
  forallb (fun nt : string * ty => has_field (fst nt) fo) fi = true ->
  rec_children (new_step f') fi fo = Some cs ->
  forallb (fun ic : nat * step => step_ok (snd ic)) cs = true ->
  wf_ty i = true ->
  sound_at cf i o (SRec o cs).
Proof.
  intros IH Ui Uo F1 F2 RC OK WF.
  rewrite wf_under, Ui in WF. simpl in WF. apply andb_true_iff in WF as [ND WFf].
  rewrite forallb_forall in F1, F2, OK, WFf.
  apply map_opt_Forall2 in RC.
  (* what is known about a child *)
  assert (CH : forall n ot ind c,
             In (n, ot) fo ->
             match index_field n fi with
             | None => Some (O, SNull ot)
             | Some (ind, it) => option_map (fun c => (ind, c)) (new_step f' it ot)
             end = Some (ind, c) ->
             In (ind, c) cs ->
             forall l, has_ty_rec has_ty fi l = true ->
             (c = SNull ot /\ index_field n fi = None) \/
             (exists it, index_field n fi = Some (ind, it) /\ new_step f' it ot = Some c /\
                         sound_at cf it ot c)).
  { intros n ot ind c Ino R Inc l HL.
    destruct (index_field n fi) as [[ind' it]|] eqn:IF.
    - right. destruct (new_step f' it ot) as [c'|] eqn:NS; simpl in R; inversion R; subst.
      exists it. split; [reflexivity|]. split; [exact NS|].
      destruct (index_field_spec _ _ _ _ IF) as [NE LF].
      eapply IH; eauto.
      + specialize (F1 _ Ino). simpl in F1. rewrite LF in F1. exact F1.
      + apply (OK _ Inc).
      + apply (WFf (n, it)). eapply nth_error_In; eauto.
    - left. inversion R; subst. auto. }
  intros v p HT. destruct v as [|b|l|tg x].
  - simpl. split; [reflexivity | tauto].
  - simpl in HT. unfold is_prim in HT. rewrite Ui in HT. discriminate.
  - simpl in HT. rewrite Ui in HT.
    rewrite build_rec. cbv zeta.
    split.
    + (* type *)
      simpl fst.
      destruct (existsb (fun x : ty * val * bool => snd x) (map (rec_g cf l) cs)) eqn:EX; [|reflexivity].
      exfalso. apply existsb_exists in EX as [r [Inr Sr]].
      apply in_map_iff in Inr as [[ind c] [Eg Inc]].
      destruct (Forall2_in_r _ _ _ _ RC Inc) as [[n ot] [Ino R]].
      destruct (rec_g_cases cf l ind c) as [(t & -> & G)|G].
      { rewrite G in Eg. subst r. discriminate. }
      destruct (CH _ _ _ _ Ino R Inc l HT) as [[-> _]|(it & IF & NS & SD)].
      { simpl in Eg. subst r. discriminate. }
      destruct (index_field_spec _ _ _ _ IF) as [NE _].
      destruct (SD (nth ind l VNull) (p ++ [PField n]) (nth_has_ty _ _ _ _ _ HT NE)) as [TY _].
      rewrite G in Eg. cbv zeta in Eg. rewrite TY, (new_step_to _ _ _ _ NS) in Eg.
      unfold eq_under in Eg. rewrite ty_eqb_refl in Eg. subst r. discriminate.
    + (* leaves *)
      intros lf. simpl snd.
      change (leaves o (VList (map (fun x : ty * val * bool => snd (fst x)) (map (rec_g cf l) cs))) p)
        with (match under o with
              | TRec fs => leaves_rec leaves p fs (map (fun x : ty * val * bool => snd (fst x)) (map (rec_g cf l) cs))
              | TArr e | TSet e => leaves_arr leaves p e (map (fun x : ty * val * bool => snd (fst x)) (map (rec_g cf l) cs)) O
              | _ => [] end).
      change (leaves i (VList l) p)
        with (match under i with
              | TRec fs => leaves_rec leaves p fs l
              | TArr e | TSet e => leaves_arr leaves p e l O
              | _ => [] end).
      rewrite Ui, Uo, !leaves_rec_In, map_map. split.
      * intros (k & n & ot & y & Efo & Ey & Hlf).
        rewrite nth_error_map in Ey.
        destruct (Forall2_nth_l _ _ _ _ _ RC Efo) as [[ind c] [Ecs R]].
        rewrite Ecs in Ey. cbn [option_map] in Ey. injection Ey as <-. cbv beta in Hlf.
        assert (Inc := nth_error_In _ _ Ecs). assert (Ino := nth_error_In _ _ Efo).
        destruct (rec_g_cases cf l ind c) as [(t & -> & G)|G].
        { rewrite G in Hlf. simpl in Hlf. contradiction. }
        destruct (CH _ _ _ _ Ino R Inc l HT) as [[-> _]|(it & IF & NS & SD)].
        { simpl in Hlf. contradiction. }
        destruct (index_field_spec _ _ _ _ IF) as [NE _].
        destruct (SD (nth ind l VNull) (p ++ [PField n]) (nth_has_ty _ _ _ _ _ HT NE)) as [_ LV].
        rewrite G in Hlf. cbv zeta in Hlf.
        assert (Hlf' : In lf (leaves ot (snd (build cf c (nth ind l VNull))) (p ++ [PField n]))).
        { destruct (eq_under _ _); exact Hlf. }
        apply LV in Hlf'.
        destruct (nth_error l ind) as [x|] eqn:NL.
        -- rewrite (nth_error_nth _ _ _ NL) in Hlf'. exists ind, n, it, x. auto.
        -- rewrite nth_overflow in Hlf' by (apply nth_error_None; exact NL).
           simpl in Hlf'. contradiction.
      * intros (k & n & it & x & Efi & El & Hlf).
        assert (Infi := nth_error_In _ _ Efi).
        specialize (F2 _ Infi). simpl in F2.
        destruct (has_field_nth _ _ F2) as (j & ot & Efo).
        destruct (Forall2_nth_l _ _ _ _ _ RC Efo) as [[ind c] [Ecs R]].
        assert (Inc := nth_error_In _ _ Ecs). assert (Ino := nth_error_In _ _ Efo).
        pose proof (index_field_nodup _ _ _ _ ND Efi) as IFk.
        destruct (CH _ _ _ _ Ino R Inc l HT) as [[_ IFn]|(it' & IF & NS & SD)].
        { rewrite IFn in IFk. discriminate. }
        rewrite IFk in IF. inversion IF; subst ind it'. clear IF.
        assert (HX : has_ty x it = true).
        { destruct (has_ty_rec_nth _ _ _ HT) as [_ G]. eapply G; eauto. }
        exists j, n, ot, (snd (fst (rec_g cf l (k, c)))). split; [exact Efo|]. split.
        { rewrite nth_error_map, Ecs. reflexivity. }
        destruct (rec_g_cases cf l k c) as [(t & -> & G)|G].
        { apply new_step_SNull in NS. rewrite (null_has_ty _ _ NS HX) in Hlf. simpl in Hlf. contradiction. }
        rewrite G. cbv zeta.
        destruct (SD x (p ++ [PField n]) HX) as [_ LV].
        rewrite (nth_error_nth _ _ _ El).
        destruct (eq_under _ _); simpl; apply LV; exact Hlf.
  - simpl in HT. rewrite Ui in HT. discriminate.
Qed.

Transparent rec_g.

Lemma build_arr_eq cf o c l (s : step) :
  s = SArr o c \/ s = SSet o c ->
  build cf s (VList l) =
  let rs := map (build cf c) l in
  let is_set := match s with SSet _ _ => true | _ => false end in
  match unique_types cf (map fst rs) with
  | [] => (o, VList (map snd rs))
  | [t1] =>
    ((if eq_under t1 (match inner o with Some e => e | None => ty_null end) then o
      else if is_set then TSet t1 else TArr t1),
     VList (map snd rs))
  | uts =>
    let u := mk_union cf uts in
    ((if eq_under u (match inner o with Some e => e | None => ty_null end) then o
      else if is_set then TSet u else TArr u),
     VList (map (wrap_union cf (sort_tys cf uts)) rs))
  end.
Proof. intros [-> | ->]; reflexivity. Qed.

Lemma leaves_list t l p :
  leaves t (VList l) p =
  match under t with
  | TRec fs => leaves_rec leaves p fs l
  | TArr e | TSet e => leaves_arr leaves p e l O
  | _ => []
  end.
Proof. reflexivity. Qed.

Lemma arr_sound cf f f' i o ii oi c s :
  IHsound cf f ->
  (under i = TArr ii \/ under i = TSet ii) ->
  (under o = TArr oi \/ under o = TSet oi) ->
  (s = SArr o c \/ s = SSet o c) ->
  fits f ii oi = true -> new_step f' ii oi = Some c -> step_ok c = true -> wf_ty i = true ->
  sound_at cf i o s.
Proof.
  intros IH Ui Uo Es FT NS OK WF.
  assert (WFi : wf_ty ii = true).
  { rewrite wf_under in WF. destruct Ui as [U|U]; rewrite U in WF; exact WF. }
  assert (SD : sound_at cf ii oi c) by (eapply IH; eauto).
  assert (Io : inner o = Some oi) by (unfold inner; destruct Uo as [U|U]; rewrite U; reflexivity).
  intros v p HT. destruct v as [|b|l|tg x].
  - destruct Es as [-> | ->]; simpl; (split; [reflexivity | tauto]).
  - simpl in HT. unfold is_prim in HT. destruct Ui as [U|U]; rewrite U in HT; discriminate.
  - assert (HL : forall x, In x l -> has_ty x ii = true).
    { simpl in HT. apply forallb_forall. destruct Ui as [U|U]; rewrite U in HT; exact HT. }
    rewrite (build_arr_eq cf o c l s Es). cbv zeta.
    assert (TYS : Forall (eq oi) (map fst (map (build cf c) l))).
    { apply Forall_forall. intros t Int. apply in_map_iff in Int as [r [<- Inr]].
      apply in_map_iff in Inr as [x [<- Inx]]. symmetry. apply (SD x p (HL x Inx)). }
    rewrite (unique_types_const cf oi _ TYS).
    assert (LV : forall lf, In lf (leaves o (VList (map snd (map (build cf c) l))) p) <->
                            In lf (leaves i (VList l) p)).
    { intros lf. rewrite !leaves_list.
      assert (A : forall e e', (forall x q, In x l -> (In lf (leaves e' (snd (build cf c x)) q) <-> In lf (leaves e x q))) ->
                  (In lf (leaves_arr leaves p e' (map snd (map (build cf c) l)) O) <->
                   In lf (leaves_arr leaves p e l O))).
      { intros e e' HE. rewrite !leaves_arr_In. split.
        - intros (j & y & Ey & Hy). rewrite map_map, nth_error_map in Ey.
          destruct (nth_error l j) as [x|] eqn:Ex; simpl in Ey; inversion Ey; subst y.
          exists j, x. split; auto. apply (HE x _ (nth_error_In _ _ Ex)). exact Hy.
        - intros (j & x & Ex & Hx). exists j, (snd (build cf c x)). split.
          + rewrite map_map, nth_error_map, Ex. reflexivity.
          + apply (HE x _ (nth_error_In _ _ Ex)). exact Hx. }
      assert (HE : forall x q, In x l -> (In lf (leaves oi (snd (build cf c x)) q) <-> In lf (leaves ii x q))).
      { intros x q Inx. apply (SD x q (HL x Inx)). }
      destruct Ui as [U|U]; destruct Uo as [U'|U']; rewrite U, U'; apply A; exact HE. }
    destruct (map fst (map (build cf c) l)) as [|t0 r] eqn:EM.
    + split; [reflexivity | exact LV].
    + cbn [fst snd]. rewrite Io. unfold eq_under. rewrite ty_eqb_refl. split; [reflexivity | exact LV].
  - simpl in HT. destruct Ui as [U|U]; rewrite U in HT; discriminate.
Qed.

Lemma union_sound cf f f' i o ts cs :
  IHsound cf f ->
  under i = TUnion ts ->
  forallb (fun t => fits f t o) ts = true ->
  map_opt (fun t => new_step f' t o) ts = Some cs ->
  forallb step_ok cs = true -> wf_ty i = true ->
  sound_at cf i o (SFromUnion o cs).
Proof.
  intros IH Ui FT MO OK WF.
  rewrite wf_under, Ui in WF. simpl in WF.
  rewrite forallb_forall in FT, OK, WF.
  apply map_opt_Forall2 in MO.
  intros v p HT. destruct v as [|b|l|tg x].
  - simpl. split; [reflexivity | tauto].
  - simpl in HT. unfold is_prim in HT. rewrite Ui in HT. discriminate.
  - simpl in HT. rewrite Ui in HT. discriminate.
  - simpl in HT. rewrite Ui in HT.
    destruct (nth_error ts tg) as [m|] eqn:Em; try discriminate.
    destruct (Forall2_nth_l _ _ _ _ _ MO Em) as [c [Ec NS]].
    assert (SD : sound_at cf m o c).
    { eapply IH; eauto.
      - apply FT. eapply nth_error_In; eauto.
      - apply OK. eapply nth_error_In; eauto.
      - apply WF. eapply nth_error_In; eauto. }
    assert (B : build cf (SFromUnion o cs) (VUnion tg x) = build cf c x).
    { change (build cf (SFromUnion o cs) (VUnion tg x))
        with (pick_nth (fun c => build cf c x) (ty_err, VNull) cs tg).
      rewrite pick_nth_spec, Ec. reflexivity. }
    rewrite B. rewrite (leaves_union i ts tg m x p Ui Em). apply SD. exact HT.
Qed.

Lemma new_step_S f i o :
  new_step (S f) i o =
  if is_null i then Some (SNull o)
  else if eq_under i o then Some (SCopy o)
  else
    match under i, under o with
    | TRec fi, TRec fo => option_map (SRec o) (rec_children (new_step f) fi fo)
    | _, _ =>
      if is_prim i && is_prim o then Some (SCastPrim i o)
      else
        match inner i with
        | Some ii =>
          match under o with
          | TArr oi => option_map (SArr o) (new_step f ii oi)
          | TSet oi => option_map (SSet o) (new_step f ii oi)
          | _ => tag_step i o
          end
        | None =>
          match under i with
          | TUnion ts =>
            match map_opt (fun t => new_step f t o) ts with
            | Some cs => Some (SFromUnion o cs)
            | None => tag_step i o
            end
          | _ => tag_step i o
          end
        end
    end.
Proof. reflexivity. Qed.

Lemma fits_S f i o :
  fits (S f) i o =
  if eq_under i o || is_null i then true
  else
    match under i, under o with
    | TUnion ts, _ => forallb (fun t => fits f t o) ts
    | TRec fi, TRec fo =>
      forallb (fun nt : string * ty =>
                 match lookup_field (fst nt) fi with
                 | Some it => fits f it (snd nt)
                 | None => true
                 end) fo
      && forallb (fun nt : string * ty => has_field (fst nt) fo) fi
    | TArr ii, TArr oi | TArr ii, TSet oi | TSet ii, TArr oi | TSet ii, TSet oi => fits f ii oi
    | _, TUnion _ => is_some (best_union_tag i o)
    | _, _ => false
    end.
Proof. reflexivity. Qed.

Theorem shape_sound cf : forall F, IHsound cf F.
Proof.
  induction F as [|f IH]; intros F' i o s FT NS OK WF; [discriminate|].
  destruct F' as [|f']; [discriminate|].
  rewrite fits_S in FT. rewrite new_step_S in NS.
  destruct (is_null i) eqn:N.
  { inversion NS; subst. apply null_sound. exact N. }
  destruct (eq_under i o) eqn:E.
  { inversion NS; subst. apply copy_sound. exact E. }
  simpl in FT. unfold is_prim, inner in NS.
  destruct (under i) as [idi|fi|ii|ii|ki vi|ts|ni ti] eqn:Ui;
    destruct (under o) as [ido|fo|oi|oi|ko vo|ts'|no to] eqn:Uo;
    try discriminate FT;
    try (exfalso; eapply under_not_named; eassumption);
    cbn [andb] in NS.
  (* prim -> union *)
  - eapply tag_sound; eauto.
  (* record -> record *)
  - apply andb_true_iff in FT as [F1 F2].
    destruct (rec_children (new_step f') fi fo) as [cs|] eqn:RC; simpl in NS; inversion NS; subst.
    eapply rec_sound; eauto.
  - eapply tag_sound; eauto.
  (* array/set -> array/set *)
  - destruct (new_step f' ii oi) as [c|] eqn:NC; simpl in NS; inversion NS; subst.
    eapply arr_sound; eauto.
  - destruct (new_step f' ii oi) as [c|] eqn:NC; simpl in NS; inversion NS; subst.
    eapply arr_sound; eauto.
  - eapply tag_sound; eauto.
  - destruct (new_step f' ii oi) as [c|] eqn:NC; simpl in NS; inversion NS; subst.
    eapply arr_sound; eauto.
  - destruct (new_step f' ii oi) as [c|] eqn:NC; simpl in NS; inversion NS; subst.
    eapply arr_sound; eauto.
  - eapply tag_sound; eauto.
  (* map -> union *)
  - eapply tag_sound; eauto.
  (* union -> anything *)
  - destruct (map_opt (fun t => new_step f' t o) ts) as [cs|] eqn:MO;
      [inversion NS; subst; eapply union_sound; eauto | eapply tag_sound; eauto].
  - destruct (map_opt (fun t => new_step f' t o) ts) as [cs|] eqn:MO;
      [inversion NS; subst; eapply union_sound; eauto | eapply tag_sound; eauto].
  - destruct (map_opt (fun t => new_step f' t o) ts) as [cs|] eqn:MO;
      [inversion NS; subst; eapply union_sound; eauto | eapply tag_sound; eauto].
  - destruct (map_opt (fun t => new_step f' t o) ts) as [cs|] eqn:MO;
      [inversion NS; subst; eapply union_sound; eauto | eapply tag_sound; eauto].
  - destruct (map_opt (fun t => new_step f' t o) ts) as [cs|] eqn:MO;
      [inversion NS; subst; eapply union_sound; eauto | eapply tag_sound; eauto].
  - destruct (map_opt (fun t => new_step f' t o) ts) as [cs|] eqn:MO;
      [inversion NS; subst; eapply union_sound; eauto | eapply tag_sound; eauto].
Qed.

(* ---------------------------------------------------------------- the operator: uniform and lossless under the guard *)

Lemma sound_at_under cf t t0 o s : under t = under t0 -> sound_at cf t0 o s -> sound_at cf t o s.
Proof.
  intros U SD v p HT. rewrite has_ty_under, U, <- has_ty_under in HT.
  destruct (SD v p HT) as [A B]. split; [exact A|].
  intros lf. rewrite B. rewrite (leaves_under t), U, <- (leaves_under t0). tauto.
Qed.

Lemma shapeable_spec cf t T :
  shapeable cf t T = true ->
  exists s, new_shaper cf t T = Some (T, s) /\ new_step cf t T = Some s /\
            step_ok s = true /\ fits cf t T = true /\ wf_ty t = true.
Proof.
  unfold shapeable. destruct (new_shaper cf t T) as [[typ s]|] eqn:NSH; try discriminate.
  intros H. apply andb_true_iff in H as [H W]. apply andb_true_iff in H as [H FT].
  apply andb_true_iff in H as [ET OK]. apply ty_eqb_true in ET. subst typ.
  exists s. repeat split; auto.
  unfold new_shaper in NSH. destruct (shaper_type cf t T) as [typ|]; try discriminate.
  destruct (new_step cf t typ) as [s'|] eqn:NS; try discriminate.
  inversion NSH; subst. exact NS.
Qed.

Definition cache_inv (cf : nat) (T : ty) (c : cache) : Prop :=
  forall k s, cache_get k c = Some s -> forall t, under t = k -> sound_at cf t T s.

Definition out_ok (T : ty) (x y : tv) : Prop :=
  fst y = T /\ forall p lf, In lf (leaves T (snd y) p) <-> In lf (leaves (fst x) (snd x) p).

Lemma shaper_eval_ok cf T c x :
  cache_inv cf T c -> shapeable cf (fst x) T = true -> has_ty (snd x) (fst x) = true ->
  cache_inv cf T (fst (shaper_eval cf T c x)) /\ out_ok T x (snd (shaper_eval cf T c x)).
Proof.
  intros CI SH HT. destruct x as [t v]. simpl in SH, HT.
  destruct (shapeable_spec _ _ _ SH) as (s & NSH & NS & OK & FT & WF).
  assert (EQ : eq_under t T = true -> out_ok T (t, v) (T, v)).
  { intros E. split; [reflexivity|]. intros p lf. simpl. rewrite (eq_under_leaves _ _ v p E). tauto. }
  assert (SD : forall s', sound_at cf t T s' -> out_ok T (t, v) (build cf s' v)).
  { intros s' S'. split; [apply (S' v [] HT) | intros p lf; apply (S' v p HT)]. }
  unfold shaper_eval.
  destruct v as [|b|l|tg x0].
  - split; [exact CI|]. split; [reflexivity|]. intros p lf. simpl. tauto.
  - destruct (eq_under t T) eqn:E; [split; [exact CI | apply EQ; reflexivity]|].
    destruct (cache_get (under t) c) as [s'|] eqn:CG.
    + split; [exact CI|]. apply SD. eapply CI; eauto.
    + rewrite NSH. split.
      * intros k s' G t' U. simpl in G. destruct (ty_eqb (under t) k) eqn:K.
        -- inversion G; subst. apply ty_eqb_true in K.
           apply (sound_at_under cf t' t); [congruence|]. eapply shape_sound; eauto.
        -- eapply CI; eauto.
      * apply SD. eapply shape_sound; eauto.
  - destruct (eq_under t T) eqn:E; [split; [exact CI | apply EQ; reflexivity]|].
    destruct (cache_get (under t) c) as [s'|] eqn:CG.
    + split; [exact CI|]. apply SD. eapply CI; eauto.
    + rewrite NSH. split.
      * intros k s' G t' U. simpl in G. destruct (ty_eqb (under t) k) eqn:K.
        -- inversion G; subst. apply ty_eqb_true in K.
           apply (sound_at_under cf t' t); [congruence|]. eapply shape_sound; eauto.
        -- eapply CI; eauto.
      * apply SD. eapply shape_sound; eauto.
  - destruct (eq_under t T) eqn:E; [split; [exact CI | apply EQ; reflexivity]|].
    destruct (cache_get (under t) c) as [s'|] eqn:CG.
    + split; [exact CI|]. apply SD. eapply CI; eauto.
    + rewrite NSH. split.
      * intros k s' G t' U. simpl in G. destruct (ty_eqb (under t) k) eqn:K.
        -- inversion G; subst. apply ty_eqb_true in K.
           apply (sound_at_under cf t' t); [congruence|]. eapply shape_sound; eauto.
        -- eapply CI; eauto.
      * apply SD. eapply shape_sound; eauto.
Qed.

Definition input_ok (cf : nat) (T : ty) (x : tv) : Prop :=
  shapeable cf (fst x) T = true /\ has_ty (snd x) (fst x) = true.

Lemma cache_after_inv cf T : forall a c,
  cache_inv cf T c -> Forall (input_ok cf T) a -> cache_inv cf T (cache_after cf T c a).
Proof.
  induction a as [|x r IH]; intros c CI FA; simpl; auto.
  inversion FA as [|? ? [SH HT] FR]; subst.
  apply IH; auto. apply shaper_eval_ok; auto.
Qed.

Lemma shape_all_ok cf T : forall vs c,
  cache_inv cf T c -> Forall (input_ok cf T) vs -> Forall2 (out_ok T) vs (shape_all cf T c vs).
Proof.
  induction vs as [|x r IH]; intros c CI FA; simpl; [constructor|].
  inversion FA as [|? ? [SH HT] FR]; subst.
  destruct (shaper_eval_ok cf T c x CI SH HT) as [CI' OK].
  destruct (shaper_eval cf T c x) as [c' y]. simpl in *. constructor; auto.
Qed.

Lemma cache_inv_nil cf T : cache_inv cf T [].
Proof. intros k s G. discriminate. Qed.

(* the operator, for every memory limit *)
Section OpTheorems.
  Variable file : Type.
  Variable file_empty : file.
  Variable file_write : file -> tv -> file.
  Variable file_read : file -> list tv.
  Variable vsize : tv -> nat.
  Hypothesis file_roundtrip : forall l, file_read (fold_left file_write l file_empty) = l.

  Let op := fuse_op file file_empty file_write file_read vsize.

  Theorem fuse_count_order cf mem vs :
    List.length (op cf mem vs) = List.length vs /\
    forall T, fuser_type cf vs = Some T ->
      forall a x b, vs = a ++ x :: b ->
        nth_error (op cf mem vs) (List.length a) =
        Some (snd (shaper_eval cf T (cache_after cf T [] a) x)).
  Proof.
    unfold op. rewrite (fuse_op_eq file file_empty file_write file_read vsize file_roundtrip).
    split.
    - destruct vs as [|x r]; [reflexivity|].
      destruct (fuser_type_some cf (x :: r)) as [T ET]; [discriminate|].
      rewrite ET. apply shape_all_length.
    - intros T ET a x b ->. rewrite ET. apply shape_all_nth.
  Qed.

  Theorem fuse_spill_invariant cf mem mem' vs : op cf mem vs = op cf mem' vs.
  Proof. apply fuse_op_spill_invariant. exact file_roundtrip. Qed.

  Theorem fuse_uniform_lossless_guarded cf mem vs T :
    fuser_type cf vs = Some T ->
    Forall (input_ok cf T) vs ->
    Forall2 (out_ok T) vs (op cf mem vs).
  Proof.
    intros ET FA. unfold op.
    rewrite (fuse_op_eq file file_empty file_write file_read vsize file_roundtrip), ET.
    apply shape_all_ok; auto. apply cache_inv_nil.
  Qed.
End OpTheorems.

(* ---------------------------------------------------------------- witnesses: where the faithful model violates the statement *)

Definition list_op (cf mem : nat) (vs : list tv) : list tv :=
  fuse_op (list tv) [] (fun f x => f ++ [x]) (fun f => f) (fun _ => 1%nat) cf mem vs.

Lemma list_file_roundtrip : forall l : list tv, (fun f : list tv => f) (fold_left (fun f x => f ++ [x]) l []) = l.
Proof.
  intros l. simpl.
  assert (G : forall l acc, fold_left (fun (f : list tv) x => f ++ [x]) l acc = acc ++ l).
  { induction l0 as [|x r IH]; intros acc; simpl; [rewrite app_nil_r; reflexivity|].
    rewrite IH, <- app_assoc. reflexivity. }
  apply G.
Qed.

Local Open Scope string_scope.

(* {a:{b:1}} {a:3} {a:{c:2}}: the fused type is {a:(int64,{b:int64,c:int64})};
   the records {b:..} and {c:..} are not members of that union (mergeAllRecords
   merged them), the shaper leaves the first and third value as they are. *)
Definition wit_uniform : list tv :=
  [ (TRec [("a", TRec [("b", TPrim 9)])], VList [VList [VPrim 1]]);
    (TRec [("a", TPrim 9)], VList [VPrim 3]);
    (TRec [("a", TRec [("c", TPrim 9)])], VList [VList [VPrim 2]]) ].

Lemma uniform_refuted :
  exists vs T,
    forallb (fun x : tv => has_ty (snd x) (fst x) && wf_ty (fst x)) vs = true /\
    fuser_type 20 vs = Some T /\
    exists y, In y (list_op 20 1000 vs) /\ fst y <> T.
Proof.
  exists wit_uniform, (TRec [("a", TUnion [TPrim 9; TRec [("b", TPrim 9); ("c", TPrim 9)]])]).
  split; [vm_compute; reflexivity|]. split; [vm_compute; reflexivity|].
  exists (TRec [("a", TRec [("b", TPrim 9)])], VList [VList [VPrim 1]]).
  split; [vm_compute; auto | discriminate].
Qed.

(* {id:7,m:|{"a":1}|} {id:8,m:|{"b":"x"}|}: maps cannot be shaped (issue #2894),
   both values become error values and the leaf id is lost. *)
Definition wit_map : list tv :=
  [ (TRec [("id", TPrim 9); ("m", TMap (TPrim 25) (TPrim 9))], VList [VPrim 7; VList [VPrim 97; VPrim 1]]);
    (TRec [("id", TPrim 9); ("m", TMap (TPrim 25) (TPrim 25))], VList [VPrim 8; VList [VPrim 98; VPrim 120]]) ].

Lemma lossless_map_refuted :
  exists vs T x y,
    forallb (fun x : tv => has_ty (snd x) (fst x) && wf_ty (fst x)) vs = true /\
    fuser_type 20 vs = Some T /\
    nth_error vs 0 = Some x /\ nth_error (list_op 20 1000 vs) 0 = Some y /\
    In ([PField "id"], 9%N, 7%N) (leaves (fst x) (snd x) []) /\
    ~ In ([PField "id"], 9%N, 7%N) (leaves (fst y) (snd y) []).
Proof.
  exists wit_map,
    (TRec [("id", TPrim 9); ("m", TMap (TPrim 25) (TUnion [TPrim 9; TPrim 25]))]),
    (TRec [("id", TPrim 9); ("m", TMap (TPrim 25) (TPrim 9))], VList [VPrim 7; VList [VPrim 97; VPrim 1]]),
    (ty_err, VNull).
  split; [vm_compute; reflexivity|]. split; [vm_compute; reflexivity|].
  split; [reflexivity|]. split; [vm_compute; reflexivity|].
  split; [vm_compute; auto | vm_compute; tauto].
Qed.

(* the guard is satisfiable: {a:1} {b:"x"} {a:"s",b:null} *)
Definition wit_ok : list tv :=
  [ (TRec [("a", TPrim 9)], VList [VPrim 1]);
    (TRec [("b", TPrim 25)], VList [VPrim 120]);
    (TRec [("a", TPrim 25); ("b", TPrim 29)], VList [VPrim 115; VNull]) ].

Example guard_satisfiable :
  exists T, fuser_type 20 wit_ok = Some T /\ Forall (input_ok 20 T) wit_ok /\
            Forall2 (out_ok T) wit_ok (list_op 20 3 wit_ok).
Proof.
  exists (TRec [("a", TUnion [TPrim 9; TPrim 25]); ("b", TPrim 25)]).
  assert (A : fuser_type 20 wit_ok = Some (TRec [("a", TUnion [TPrim 9; TPrim 25]); ("b", TPrim 25)]))
    by (vm_compute; reflexivity).
  assert (B : Forall (input_ok 20 (TRec [("a", TUnion [TPrim 9; TPrim 25]); ("b", TPrim 25)])) wit_ok).
  { repeat constructor; vm_compute; reflexivity. }
  split; [exact A|]. split; [exact B|].
  apply (fuse_uniform_lossless_guarded (list tv) [] (fun f x => (f ++ [x])%list) (fun f => f) (fun _ => 1%nat)
                                       list_file_roundtrip 20 3 wit_ok _ A B).
Qed.
