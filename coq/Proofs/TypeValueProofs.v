(* Type values: syntactic and binding round trips, injectivity. *)
From Coq Require Import ZifyN ZifyNat ZifyBool.
From ZV Require Import Base.Prelude Base.Types Base.TypeValue.
Local Open Scope N_scope.
Ltac Zify.zify_post_hook ::= Z.div_mod_to_equations.

(* ---------------------------------------------------------------- uvarint *)
Definition p128 (k : nat) : N := 128 ^ N.of_nat k.

Lemma p128_S k : p128 (S k) = 128 * p128 k.
Proof. unfold p128. rewrite Nat2N.inj_succ, N.pow_succ_r'. reflexivity. Qed.

Lemma read_uv_uvarint_f : forall k n rest f1 f2,
  (1 <= k)%nat -> n < p128 k -> (k <= f1)%nat -> (k <= f2)%nat ->
  read_uv f2 (uvarint_f f1 n ++ rest) = Some (n, rest).
Proof.
  induction k as [|k IH]; intros n rest f1 f2 Hk Hn H1 H2; [lia|].
  destruct f1 as [|f1]; [lia|]. destruct f2 as [|f2]; [lia|].
  cbn [uvarint_f]. destruct (n <? 128) eqn:E.
  - cbn [app read_uv]. rewrite E. reflexivity.
  - assert (Hge : 128 <= n) by lia.
    destruct k as [|k].
    { unfold p128 in Hn. simpl in Hn. lia. }
    rewrite <- app_comm_cons. cbn [read_uv].
    replace (n mod 128 + 128 <? 128) with false by lia.
    rewrite (IH (n / 128) rest f1 f2); try lia.
    + f_equal. f_equal. lia.
    + rewrite p128_S in Hn. lia.
Qed.

Lemma max_len_p128 : max_len <= p128 5.
Proof. vm_compute. discriminate. Qed.

Lemma read_len_uvarint n rest : n < max_len -> read_len (uvarint n ++ rest) = Some (n, rest).
Proof.
  intros H. unfold read_len, uvarint.
  rewrite (read_uv_uvarint_f 5 n rest 10 10); try lia.
  - replace (n <? max_len) with true by lia. reflexivity.
  - pose proof max_len_p128. lia.
Qed.

Lemma read_str_str s rest : blen s < max_len -> read_str (str s ++ rest) = Some (s, rest).
Proof.
  intros H. unfold read_str, str. rewrite <- app_assoc.
  rewrite read_len_uvarint by exact H.
  unfold blen in *. rewrite app_length.
  replace (N.of_nat (List.length s) <=? N.of_nat (List.length s + List.length rest)) with true by lia.
  rewrite Nat2N.id. rewrite firstn_app, Nat.sub_diag, firstn_all. simpl. rewrite app_nil_r.
  rewrite skipn_app, Nat.sub_diag, skipn_all. reflexivity.
Qed.

(* ---------------------------------------------------------------- well-formedness *)
Definition name_ok (s : bytes) : Prop := blen s < max_len.
Definition count_ok {A} (l : list A) : Prop := N.of_nat (List.length l) <= max_count.

(* what the format can carry: implemented primitives, at most 100000
   fields/members/symbols, name lengths below 2^63 *)
Inductive wf : ty -> Prop :=
| wf_prim id : valid_prim id = true -> wf (TPrim id)
| wf_record fs : count_ok fs -> Forall (fun f => name_ok (fst f) /\ wf (snd f)) fs -> wf (TRecord fs)
| wf_array t : wf t -> wf (TArray t)
| wf_set t : wf t -> wf (TSet t)
| wf_map k v : wf k -> wf v -> wf (TMap k v)
| wf_union ts : count_ok ts -> Forall wf ts -> wf (TUnion ts)
| wf_enum ss : count_ok ss -> Forall name_ok ss -> wf (TEnum ss)
| wf_error t : wf t -> wf (TError t)
| wf_named n t : name_ok n -> wf t -> wf (TNamed n t)
| wf_ref n : name_ok n -> wf (TRef n).

Lemma read_count_uvarint {A} (l : list A) rest :
  count_ok l -> read_count (uvarint (N.of_nat (List.length l)) ++ rest) = Some (List.length l, rest).
Proof.
  intros H. unfold read_count, count_ok, max_count in *.
  rewrite read_len_uvarint by (unfold max_len; lia).
  replace (100000 <? N.of_nat (List.length l)) with false by lia.
  rewrite Nat2N.id. reflexivity.
Qed.

Lemma rep_flat_map {A} (p : bytes -> option (A * bytes)) (enc : A -> bytes) (l : list A) :
  Forall (fun x => forall rest, p (enc x ++ rest) = Some (x, rest)) l ->
  forall rest, rep p (List.length l) (flat_map enc l ++ rest) = Some (l, rest).
Proof.
  induction 1 as [|x r Hx _ IH]; intros rest; simpl; [reflexivity|].
  rewrite <- app_assoc, Hx, IH. reflexivity.
Qed.

(* ---------------------------------------------------------------- syntax round trip *)
Lemma tag_prim id : valid_prim id = true ->
  (id =? 37) = false /\ (id =? 38) = false /\ (id =? 30) = false /\ (id =? 31) = false /\
  (id =? 32) = false /\ (id =? 33) = false /\ (id =? 34) = false /\ (id =? 35) = false /\ (id =? 36) = false.
Proof.
  unfold valid_prim. intros H. apply andb_true_iff in H as [H _]. repeat split; lia.
Qed.

Definition maxdepth (l : list ty) : nat := fold_right (fun t m => Nat.max (depth t) m) 0%nat l.

Lemma Forall_depth_lt (l : list ty) (fuel : nat) :
  (maxdepth l < fuel)%nat -> Forall (fun t => (depth t < fuel)%nat) l.
Proof.
  induction l as [|x r IH]; simpl; intros H; constructor; [lia | apply IH; lia].
Qed.

Lemma maxdepth_fields (fs : list (bytes * ty)) :
  fold_right (fun f m => Nat.max (depth (snd f)) m) 0%nat fs = maxdepth (map snd fs).
Proof. induction fs as [|f r IH]; simpl; auto. Qed.

Theorem parse_unparse : forall t, wf t ->
  forall fuel rest, (depth t < fuel)%nat -> parse fuel (unparse t ++ rest) = Some (t, rest).
Proof.
  induction t using ty_ind'; intros W fuel rest Hd; inversion W; subst;
    (destruct fuel as [|fuel]; [lia|]); simpl in Hd; simpl.
  - (* prim *)
    destruct (tag_prim id H0) as (E1 & E2 & E3 & E4 & E5 & E6 & E7 & E8 & E9).
    rewrite E1, E2, E3, E4, E5, E6, E7, E8, E9, H0. reflexivity.
  - (* record *)
    match goal with Hw : Forall (fun f => name_ok (fst f) /\ wf (snd f)) fs |- _ => rename Hw into WF end.
    match goal with Hc : count_ok fs |- _ => rename Hc into CO end.
    rewrite <- app_assoc. rewrite read_count_uvarint by exact CO.
    rewrite (rep_flat_map _ (fun f => str (fst f) ++ unparse (snd f)) fs); [reflexivity|].
    rewrite maxdepth_fields in Hd.
    assert (Hd' : Forall (fun t => (depth t < fuel)%nat) (map snd fs)) by (apply Forall_depth_lt; lia).
    clear Hd W CO. induction fs as [|[n t] r IHfs]; constructor.
    + intros rest'. apply Forall_inv in H. apply Forall_inv in WF. simpl in Hd'. apply Forall_inv in Hd'.
      destruct WF as [Hn Hw]. cbn [fst snd] in *.
      rewrite <- app_assoc, read_str_str by exact Hn. rewrite H; auto.
    + apply IHfs; [eapply Forall_inv_tail; eauto ..].
  - rewrite IHt; auto. lia.
  - rewrite IHt; auto. lia.
  - rewrite <- app_assoc, IHt1, IHt2; auto; lia.
  - (* union *)
    match goal with Hw : Forall wf ts |- _ => rename Hw into WF end.
    match goal with Hc : count_ok ts |- _ => rename Hc into CO end.
    rewrite <- app_assoc. rewrite read_count_uvarint by exact CO.
    rewrite (rep_flat_map _ unparse ts); [reflexivity|].
    assert (Hd' : Forall (fun t => (depth t < fuel)%nat) ts) by (apply Forall_depth_lt; unfold maxdepth; lia).
    clear Hd W CO. induction ts as [|t r IHts]; constructor.
    + intros rest'. apply Forall_inv in H. apply Forall_inv in WF. apply Forall_inv in Hd'. apply H; auto.
    + apply IHts; [eapply Forall_inv_tail; eauto ..].
  - (* enum *)
    match goal with Hw : Forall name_ok syms |- _ => rename Hw into WF end.
    match goal with Hc : count_ok syms |- _ => rename Hc into CO end.
    rewrite <- app_assoc. rewrite read_count_uvarint by exact CO.
    rewrite (rep_flat_map _ str syms); [reflexivity|].
    clear W CO Hd. induction WF as [|x r Hx _ IHs]; constructor; auto.
    intros rest'. apply read_str_str. exact Hx.
  - rewrite IHt; auto. lia.
  - rewrite <- app_assoc, read_str_str by assumption. rewrite IHt; auto. lia.
  - rewrite read_str_str by assumption. reflexivity.
Qed.

(* every nesting level costs at least one byte *)
Lemma depth_le_unparse : forall t, (depth t <= List.length (unparse t))%nat.
Proof.
  induction t using ty_ind'; simpl; try lia;
    try (rewrite ?app_length; simpl; lia).
  - rewrite app_length. apply le_n_S.
    transitivity (List.length (flat_map (fun f => str (fst f) ++ unparse (snd f)) fs)); [|lia].
    induction H as [|f r Hf _ IH]; simpl; [lia|]. rewrite !app_length. lia.
  - rewrite app_length. apply le_n_S.
    transitivity (List.length (flat_map unparse ts)); [|lia].
    induction H as [|f r Hf _ IH]; simpl; [lia|]. rewrite !app_length. lia.
Qed.

Corollary parse_tv_unparse t rest : wf t -> parse_tv (unparse t ++ rest) = Some (t, rest).
Proof.
  intros W. unfold parse_tv. apply parse_unparse; auto.
  rewrite app_length. pose proof (depth_le_unparse t). lia.
Qed.

(* ---------------------------------------------------------------- binding round trip *)
(* every binding the encoder relies on is also what the decoder's map says *)
Definition agree (E D : tdefs) : Prop := forall n p, assoc n E = Some p -> assoc n D = Some p.

Lemma agree_nil D : agree [] D.
Proof. intros n p H. discriminate. Qed.

Lemma agree_cons E D n i : agree E D -> agree ((n, i) :: E) ((n, i) :: D).
Proof. intros H m p. simpl. destruct (bytes_eqb m n); auto. Qed.

Definition rt_at (t : ty) : Prop :=
  noref t = true -> forall E D, agree E D ->
  exists D', resolve D (fst (to_syn E t)) = Some (t, D') /\ agree (snd (to_syn E t)) D'.

Lemma rt_list (f : tdefs -> ty -> ty * tdefs) (g : tdefs -> ty -> option (ty * tdefs)) ts :
  Forall (fun t => noref t = true -> forall E D, agree E D ->
            exists D', g D (fst (f E t)) = Some (t, D') /\ agree (snd (f E t)) D') ts ->
  forallb noref ts = true -> forall E D, agree E D ->
  exists D', res_list g D (fst (syn_list f E ts)) = Some (ts, D') /\ agree (snd (syn_list f E ts)) D'.
Proof.
  induction 1 as [|t r Ht _ IH]; intros NR E D AG; simpl in *.
  - exists D. auto.
  - apply andb_true_iff in NR as [N1 N2].
    destruct (Ht N1 E D AG) as (D1 & R1 & A1).
    destruct (f E t) as [s E1] eqn:Ef. simpl in *.
    destruct (IH N2 E1 D1 A1) as (D2 & R2 & A2).
    destruct (syn_list f E1 r) as [ss E2] eqn:Es. simpl in *.
    rewrite R1, R2. exists D2. auto.
Qed.

Lemma rt_fields (f : tdefs -> ty -> ty * tdefs) (g : tdefs -> ty -> option (ty * tdefs)) (fs : list (bytes * ty)) :
  Forall (fun fld => noref (snd fld) = true -> forall E D, agree E D ->
            exists D', g D (fst (f E (snd fld))) = Some (snd fld, D') /\ agree (snd (f E (snd fld))) D') fs ->
  forallb (fun fld => noref (snd fld)) fs = true -> forall E D, agree E D ->
  exists D', res_fields g D (fst (syn_fields f E fs)) = Some (fs, D') /\ agree (snd (syn_fields f E fs)) D'.
Proof.
  induction 1 as [|[n t] r Ht _ IH]; intros NR E D AG; simpl in *.
  - exists D. auto.
  - apply andb_true_iff in NR as [N1 N2].
    destruct (Ht N1 E D AG) as (D1 & R1 & A1).
    destruct (f E t) as [s E1] eqn:Ef. simpl in *.
    destruct (IH N2 E1 D1 A1) as (D2 & R2 & A2).
    destruct (syn_fields f E1 r) as [ss E2] eqn:Es. simpl in *.
    rewrite R1, R2. exists D2. auto.
Qed.

Theorem resolve_to_syn : forall t, rt_at t.
Proof.
  induction t using ty_ind'; unfold rt_at in *; intros NR E D AG; simpl in NR.
  - exists D. simpl. auto.
  - destruct (rt_fields (fun E t => to_syn E t) (fun D s => resolve D s) fs H NR E D AG) as (D' & R & A).
    simpl. destruct (syn_fields (fun E t => to_syn E t) E fs) as [ss E'] eqn:Es. simpl in *.
    rewrite R. exists D'. auto.
  - destruct (IHt NR E D AG) as (D' & R & A). simpl.
    destruct (to_syn E t) as [s E1]. simpl in *. rewrite R. exists D'. auto.
  - destruct (IHt NR E D AG) as (D' & R & A). simpl.
    destruct (to_syn E t) as [s E1]. simpl in *. rewrite R. exists D'. auto.
  - apply andb_true_iff in NR as [N1 N2].
    destruct (IHt1 N1 E D AG) as (D1 & R1 & A1). simpl.
    destruct (to_syn E t1) as [s1 E1]. simpl in *.
    destruct (IHt2 N2 E1 D1 A1) as (D2 & R2 & A2).
    destruct (to_syn E1 t2) as [s2 E2]. simpl in *. rewrite R1, R2. exists D2. auto.
  - destruct (rt_list (fun E t => to_syn E t) (fun D s => resolve D s) ts H NR E D AG) as (D' & R & A).
    simpl. destruct (syn_list (fun E t => to_syn E t) E ts) as [ss E'] eqn:Es. simpl in *.
    rewrite R. exists D'. auto.
  - exists D. simpl. auto.
  - destruct (IHt NR E D AG) as (D' & R & A). simpl.
    destruct (to_syn E t) as [s E1]. simpl in *. rewrite R. exists D'. auto.
  - (* named *)
    simpl. destruct (assoc n E) as [p|] eqn:As.
    + destruct (ty_eqb p t) eqn:Eq.
      * apply ty_eqb_true in Eq. subst p. simpl. rewrite (AG _ _ As). exists D. auto.
      * destruct (IHt NR E D AG) as (D' & R & A).
        destruct (to_syn E t) as [s E1]. simpl in *. rewrite R.
        exists ((n, t) :: D'). split; auto. apply agree_cons. exact A.
    + destruct (IHt NR E D AG) as (D' & R & A).
      destruct (to_syn E t) as [s E1]. simpl in *. rewrite R.
      exists ((n, t) :: D'). split; auto. apply agree_cons. exact A.
  - discriminate.
Qed.

(* to_syn keeps well-formedness (names and counts are unchanged) *)
Lemma syn_list_length f E ts : List.length (fst (syn_list f E ts)) = List.length ts.
Proof.
  revert E. induction ts as [|t r IH]; intros E; simpl; auto.
  destruct (f E t) as [s E1]. specialize (IH E1). destruct (syn_list f E1 r). simpl in *. congruence.
Qed.

Lemma syn_fields_length f E fs : List.length (fst (syn_fields f E fs)) = List.length fs.
Proof.
  revert E. induction fs as [|t r IH]; intros E; simpl; auto.
  destruct (f E (snd t)) as [s E1]. specialize (IH E1). destruct (syn_fields f E1 r). simpl in *. congruence.
Qed.

Lemma wf_to_syn : forall t, wf t -> forall E, wf (fst (to_syn E t)).
Proof.
  induction t using ty_ind'; intros W E; inversion W; subst; simpl; auto.
  - (* record *)
    match goal with Hw : Forall (fun f => name_ok (fst f) /\ wf (snd f)) fs |- _ => rename Hw into WF end.
    match goal with Hc : count_ok fs |- _ => rename Hc into CO end.
    pose proof (syn_fields_length (fun E t => to_syn E t) E fs) as L.
    destruct (syn_fields (fun E t => to_syn E t) E fs) as [ss E'] eqn:Es. simpl in *.
    constructor.
    + unfold count_ok in *. rewrite L. exact CO.
    + clear W CO L. revert E ss E' Es.
      induction fs as [|[n t] r IHfs]; intros E ss E' Es; simpl in Es.
      * inversion Es. constructor.
      * destruct (to_syn E t) as [s E1] eqn:Et.
        destruct (syn_fields (fun E t => to_syn E t) E1 r) as [ss' E2] eqn:Er.
        inversion Es; subst. constructor.
        -- apply Forall_inv in H. apply Forall_inv in WF. destruct WF as [Hn Hw]. simpl in *.
           split; auto. specialize (H Hw E). rewrite Et in H. exact H.
        -- eapply IHfs; eauto; eapply Forall_inv_tail; eauto.
  - destruct (to_syn E t) as [s E1] eqn:Et. simpl. constructor. specialize (IHt H0 E). rewrite Et in IHt. exact IHt.
  - destruct (to_syn E t) as [s E1] eqn:Et. simpl. constructor. specialize (IHt H0 E). rewrite Et in IHt. exact IHt.
  - destruct (to_syn E t1) as [s1 E1] eqn:Et1. destruct (to_syn E1 t2) as [s2 E2] eqn:Et2. simpl.
    constructor.
    + specialize (IHt1 H1 E). rewrite Et1 in IHt1. exact IHt1.
    + specialize (IHt2 H2 E1). rewrite Et2 in IHt2. exact IHt2.
  - (* union *)
    match goal with Hw : Forall wf ts |- _ => rename Hw into WF end.
    match goal with Hc : count_ok ts |- _ => rename Hc into CO end.
    pose proof (syn_list_length (fun E t => to_syn E t) E ts) as L.
    destruct (syn_list (fun E t => to_syn E t) E ts) as [ss E'] eqn:Es. simpl in *.
    constructor.
    + unfold count_ok in *. rewrite L. exact CO.
    + clear W CO L. revert E ss E' Es.
      induction ts as [|t r IHts]; intros E ss E' Es; simpl in Es.
      * inversion Es. constructor.
      * destruct (to_syn E t) as [s E1] eqn:Et.
        destruct (syn_list (fun E t => to_syn E t) E1 r) as [ss' E2] eqn:Er.
        inversion Es; subst. constructor.
        -- apply Forall_inv in H. apply Forall_inv in WF. specialize (H WF E). rewrite Et in H. exact H.
        -- eapply IHts; eauto; eapply Forall_inv_tail; eauto.
  - destruct (to_syn E t) as [s E1] eqn:Et. simpl. constructor. specialize (IHt H0 E). rewrite Et in IHt. exact IHt.
  - (* named *)
    destruct (match assoc n E with Some p => ty_eqb p t | None => false end).
    + simpl. constructor. assumption.
    + destruct (to_syn E t) as [s E1] eqn:Et. simpl. constructor; auto.
      specialize (IHt H2 E). rewrite Et in IHt. exact IHt.
Qed.

(* ---------------------------------------------------------------- the headline statements *)
(* Decoding the serialization of a type yields that type and exactly the
   trailing bytes, whatever the decoding context's typedefs map holds. *)
Theorem decode_encode : forall t, wf t -> noref t = true ->
  forall D rest, decode D (encode t ++ rest) = Some (t, rest).
Proof.
  intros t W NR D rest. unfold decode, encode.
  rewrite parse_tv_unparse by (apply wf_to_syn; exact W).
  destruct (resolve_to_syn t NR [] D (agree_nil D)) as (D' & R & _).
  rewrite R. reflexivity.
Qed.

Theorem encode_inj : forall a b, wf a -> wf b -> noref a = true -> noref b = true ->
  encode a = encode b -> a = b.
Proof.
  intros a b Wa Wb Na Nb E.
  pose proof (decode_encode a Wa Na [] []) as Ha.
  pose proof (decode_encode b Wb Nb [] []) as Hb.
  rewrite E in Ha. rewrite Ha in Hb. congruence.
Qed.

(* no serialization is a proper prefix of another: truncated values are rejected *)
Theorem encode_prefix_free : forall a b rest, wf a -> wf b -> noref a = true -> noref b = true ->
  encode a ++ rest = encode b -> a = b /\ rest = [].
Proof.
  intros a b rest Wa Wb Na Nb E.
  pose proof (decode_encode a Wa Na [] rest) as Ha.
  pose proof (decode_encode b Wb Nb [] []) as Hb.
  rewrite app_nil_r in Hb. rewrite E in Ha. rewrite Ha in Hb. inversion Hb. auto.
Qed.

Example wf_example :
  let t := TRecord [([97], TNamed [102; 111; 111] (TPrim 9)); ([98], TNamed [102; 111; 111] (TPrim 9))] in
  wf t /\ noref t = true /\ encode t = [30; 2; 1; 97; 37; 3; 102; 111; 111; 9; 1; 98; 38; 3; 102; 111; 111]
  /\ decode [] (encode t) = Some (t, []).
Proof.
  split; [|split; [|split]; vm_compute; reflexivity].
  constructor; [vm_compute; discriminate|].
  repeat constructor; try (vm_compute; reflexivity).
Qed.
