From ZV Require Import Base.Prelude Model.FilePut.

(* On an engine with atomic puts a reader of HEAD always finds the old or the new value. *)
Theorem atomic_put_head_readable old new n m :
  read_head old = Some n -> read_head (Content new) = Some m ->
  forall f, In f (put_states_atomic old new) -> read_head f = Some n \/ read_head f = Some m.
Proof. intros Ho Hn f [<-|[<-|[]]]; auto. Qed.

(* On the file engine there is a crash point after which HEAD does not parse
   (which is why ReadHead needs the TAIL fallback proved below). *)
Theorem file_put_head_refuted :
  exists old new f, read_head old <> None /\ read_head (Content new) <> None /\
                    In f (put_states old new) /\ read_head f = None.
Proof.
  exists (Content [55%N]), [56%N], (Content []). simpl. repeat split; try discriminate.
  right. left. reflexivity.
Qed.

(* ... and a crash point after which a commit's persisted snapshot decodes,
   without error, to the empty snapshot although the commit has objects (which
   is why getSnapshot treats a file without entries as absent, see below). *)
Theorem file_put_snapshot_refuted :
  exists (new : bytes) f, new <> [] /\ In f (put_states Absent new) /\ decode_snapshot f = Some [].
Proof.
  exists [1%N; 2%N], (Content []). split; [discriminate|]. split; [right; left; reflexivity | reflexivity].
Qed.

(* ---- ReadHead with the TAIL fallback and the forward probe ---- *)
From Coq Require Import Lia.

Lemma probe_reaches_end tail n : forall fuel id,
  (tail - 1 <= id)%N -> (id <= n)%N -> (N.to_nat (n - id) <= fuel)%nat ->
  probe (entries_between tail n) fuel id = n.
Proof.
  induction fuel as [|f IH]; intros id Hlo Hhi Hf; cbn [probe].
  - lia.
  - unfold entries_between at 1.
    destruct (N.leb_spec tail (id + 1)) as [Ht|Ht]; destruct (N.leb_spec (id + 1) n) as [Hn|Hn]; cbn [andb].
    + apply IH; lia.
    + lia.
    + lia.
    + lia.
Qed.

(* Whatever persistent state a create-then-fill put of HEAD was interrupted in
   (old hint, empty file, new hint), ReadHead returns the true end of the log,
   provided the hints are hints: between TAIL-1 and the last entry. *)
Theorem file_put_head_recovers old new tail n ho hn :
  (1 <= tail)%N -> (tail - 1 <= n)%N ->
  read_head old = Some ho -> (tail - 1 <= ho <= n)%N ->
  read_head (Content new) = Some hn -> (tail - 1 <= hn <= n)%N ->
  forall f fuel, In f (put_states old new) -> (N.to_nat (n + 1) <= fuel)%nat ->
  journal_read_head f tail (entries_between tail n) fuel = Some n.
Proof.
  intros Ht Htn Ho Hob Hn Hnb f fuel Hin Hfuel.
  destruct Hin as [<-|[<-|[<-|[]]]].
  - destruct old as [|b]; [discriminate|]. unfold journal_read_head. rewrite Ho.
    f_equal. apply probe_reaches_end; lia.
  - unfold journal_read_head. cbn [read_head]. f_equal. apply probe_reaches_end; lia.
  - unfold journal_read_head. rewrite Hn. f_equal. apply probe_reaches_end; lia.
Qed.

(* the premises are satisfiable, and the torn state is among the covered ones *)
Example file_put_head_recovers_ex :
  journal_read_head (Content []) 1 (entries_between 1 8) 20 = Some 8%N
  /\ journal_read_head (Content [55%N]) 1 (entries_between 1 8) 20 = Some 8%N.
Proof. split; vm_compute; reflexivity. Qed.

(* The persisted snapshot of a commit is a cache written once: in every
   persistent state of an interrupted put a reader finds no snapshot (and
   rebuilds it) or the right one -- never a wrong one. *)
Theorem file_put_snapshot_safe (new : bytes) :
  forall f, In f (put_snapshot_states Absent new) -> get_snapshot f = None \/ get_snapshot f = Some new.
Proof.
  intros f Hin. destruct new as [|x r].
  - destruct Hin as [<-|[]]. left. reflexivity.
  - destruct Hin as [<-|[<-|[<-|[]]]]; [left; reflexivity | left; reflexivity | right; reflexivity].
Qed.

(* the unrepaired reader (decode_snapshot alone) did return a wrong snapshot in the torn state *)
Example file_put_snapshot_torn_state :
  In (Content []) (put_snapshot_states Absent [1%N; 2%N]) /\ decode_snapshot (Content []) = Some []
  /\ get_snapshot (Content []) = None.
Proof. repeat split. right. left. reflexivity. Qed.
