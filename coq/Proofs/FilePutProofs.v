From ZV Require Import Base.Prelude Model.FilePut.

(* On an engine with atomic puts a reader of HEAD always finds the old or the new value. *)
Theorem atomic_put_head_readable old new n m :
  read_head old = Some n -> read_head (Content new) = Some m ->
  forall f, In f (put_states_atomic old new) -> read_head f = Some n \/ read_head f = Some m.
Proof. intros Ho Hn f [<-|[<-|[]]]; auto. Qed.

(* On the file engine there is a crash point after which HEAD does not parse:
   journal.Open then reports "no such journal" for ever. *)
Theorem file_put_head_refuted :
  exists old new f, read_head old <> None /\ read_head (Content new) <> None /\
                    In f (put_states old new) /\ read_head f = None.
Proof.
  exists (Content [55%N]), [56%N], (Content []). simpl. repeat split; try discriminate.
  right. left. reflexivity.
Qed.

(* ... and a crash point after which a commit's persisted snapshot decodes,
   without error, to the empty snapshot although the commit has objects. *)
Theorem file_put_snapshot_refuted :
  exists (new : bytes) f, new <> [] /\ In f (put_states Absent new) /\ decode_snapshot f = Some [].
Proof.
  exists [1%N; 2%N], (Content []). split; [discriminate|]. split; [right; left; reflexivity | reflexivity].
Qed.
