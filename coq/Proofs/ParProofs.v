(* Proofs about the model of the parallel pool scan (C08). *)
From ZV Require Import Base.Prelude Model.Par.
From Coq Require Import Permutation.

Lemma if_nil_app {A} (b : bool) (l : list A) : (if b then @nil A else []) ++ l = l.
Proof. destruct b; reflexivity. Qed.

Lemma in_firstn {A} : forall k (l : list A) y, In y (firstn k l) -> In y l.
Proof.
  induction k as [|k IH]; intros [|x l] y H; simpl in *; try contradiction.
  destruct H as [H|H]; [left; exact H | right; apply IH; exact H].
Qed.

Section ScatterProofs.
  Context {A : Type}.
  Variable leb : A -> A -> bool.

  Notation leg := (@leg A).
  Notation kmr := (kmr leb).
  Notation parts_ordered := (parts_ordered leb).
  Notation sorted := (sorted leb).
  Notation hd_ok := (hd_ok leb).

  Lemma leg_in : forall parts a j y, In y (leg a j parts) -> In y (List.concat parts).
  Proof.
    induction parts as [|p ps IH]; simpl; intros a j y H; [exact H|].
    apply in_app_or in H. apply in_or_app. destruct H as [H|H].
    - left. destruct (Nat.eqb (a 0) j); [exact H | destruct H].
    - right. eapply IH; eauto.
  Qed.

  (* ---------------------------------------------------------------- *)
  (* scatter + merge over ordered partitions = concatenation, for every
     assignment of partitions to legs and every tie-break of the merge.
     Generalised to legs truncated by a pushed-down [head]: leg j delivers only
     its first [t j] values. *)
  Lemma scatter_merge_head_gen : forall n parts m a t L out,
    (forall i, a i < n) -> parts_ordered parts ->
    (forall j, j < n -> m <= t j) ->
    (forall j, j < n -> L j = firstn (t j) (leg a j parts)) ->
    kmr n L out -> firstn m out = firstn m (List.concat parts).
  Proof.
    intros n parts.
    induction parts as [|p ps IHps]; [| induction p as [|x p IHp]];
      intros m a t L out Ha Hord Ht HL Hk.
    - (* no partitions *)
      inversion Hk as [L0 Hnil | L0 L' i x rest out' Hi HLi Hmin HL' Hk']; subst; [reflexivity|].
      rewrite (HL i Hi) in HLi. simpl in HLi. rewrite firstn_nil in HLi. discriminate.
    - (* an empty partition *)
      simpl. apply (IHps m (fun i => a (S i)) t L out); auto.
      + destruct Hord as [_ H]; exact H.
      + intros j Hj. rewrite (HL j Hj). simpl. rewrite if_nil_app. reflexivity.
    - destruct m as [|m]; [reflexivity|].
      destruct Hord as [Hx Hps].
      assert (Ha0 : a 0 < n) by apply Ha.
      assert (HLa : L (a 0) = x :: firstn (t (a 0) - 1) (p ++ leg (fun i => a (S i)) (a 0) ps)).
      { rewrite (HL _ Ha0). simpl. rewrite Nat.eqb_refl.
        specialize (Ht _ Ha0). destruct (t (a 0)) as [|k]; [lia|].
        simpl. rewrite Nat.sub_0_r. reflexivity. }
      inversion Hk as [L0 Hnil | L0 L' i y rest out' Hi HLi Hmin HL' Hk']; subst.
      + rewrite (Hnil _ Ha0) in HLa. discriminate.
      + assert (Ei : i = a 0).
        { destruct (Nat.eq_dec i (a 0)) as [E|NE]; [exact E|exfalso].
          assert (Hy : In y (List.concat ps)).
          { apply (leg_in ps (fun i => a (S i)) i).
            apply (in_firstn (t i)).
            assert (E2 : L i = firstn (t i) (leg (fun i => a (S i)) i ps)).
            { rewrite (HL i Hi). simpl.
              destruct (Nat.eqb (a 0) i) eqn:E; [apply Nat.eqb_eq in E; congruence|].
              reflexivity. }
            rewrite <- E2, HLi. left; reflexivity. }
          specialize (Hmin _ Ha0). rewrite HLa in Hmin. simpl in Hmin.
          rewrite (Hx x y) in Hmin; [discriminate | left; reflexivity | exact Hy]. }
        subst i. rewrite HLa in HLi. inversion HLi; subst y rest. clear HLi.
        simpl. f_equal.
        apply (IHp m a (fun j => if Nat.eqb j (a 0) then t (a 0) - 1 else t j) L' out'); auto.
        * split; [|exact Hps]. intros x0 y0 Hx0 Hy0. apply Hx; [right; exact Hx0 | exact Hy0].
        * intros j Hj. specialize (Ht j Hj). destruct (Nat.eqb j (a 0)) eqn:E.
          -- apply Nat.eqb_eq in E. subst j. lia.
          -- lia.
        * intros j Hj. rewrite (HL' j Hj). destruct (Nat.eqb j (a 0)) eqn:E.
          -- apply Nat.eqb_eq in E. subst j. simpl. rewrite Nat.eqb_refl. reflexivity.
          -- rewrite (HL j Hj). simpl.
             destruct (Nat.eqb (a 0) j) eqn:E2; [apply Nat.eqb_eq in E2; apply Nat.eqb_neq in E; congruence|].
             reflexivity.
  Qed.

  Lemma leg_length_le : forall parts a j, List.length (leg a j parts) <= List.length (List.concat parts).
  Proof.
    induction parts as [|p ps IH]; simpl; intros a j; [lia|].
    rewrite !app_length. specialize (IH (fun i => a (S i)) j).
    destruct (Nat.eqb (a 0) j); simpl; lia.
  Qed.

  Theorem scatter_merge_id : forall n a parts out,
    (forall i, a i < n) -> parts_ordered parts ->
    kmr n (fun j => leg a j parts) out -> out = List.concat parts.
  Proof.
    intros n a parts out Ha Hord Hk.
    set (m := List.length out + List.length (List.concat parts)).
    assert (H : firstn m out = firstn m (List.concat parts)).
    { apply (scatter_merge_head_gen n parts m a (fun _ => m) (fun j => leg a j parts) out); auto.
      intros j Hj. symmetry. apply firstn_all2.
      pose proof (leg_length_le parts a j). unfold m. lia. }
    rewrite !firstn_all2 in H by (unfold m; lia). exact H.
  Qed.

  (* head m pushed into the legs (and kept after the merge) *)
  Theorem head_push_ok : forall m n a parts out,
    (forall i, a i < n) -> parts_ordered parts ->
    kmr n (fun j => firstn m (leg a j parts)) out ->
    firstn m out = firstn m (List.concat parts).
  Proof.
    intros m n a parts out Ha Hord Hk.
    apply (scatter_merge_head_gen n parts m a (fun _ => m) (fun j => firstn m (leg a j parts)) out); auto.
  Qed.

  (* ---------------------------------------------------------------- *)
  (* a filter pushed into the legs *)
  Lemma leg_filter : forall f parts a j,
    filter f (leg a j parts) = leg a j (map (filter f) parts).
  Proof.
    induction parts as [|p ps IH]; simpl; intros a j; [reflexivity|].
    rewrite filter_app, IH. destruct (Nat.eqb (a 0) j); reflexivity.
  Qed.

  Lemma concat_map_filter : forall f (ps : list (list A)),
    List.concat (map (filter f) ps) = filter f (List.concat ps).
  Proof.
    induction ps as [|p ps IH]; simpl; [reflexivity|]. rewrite filter_app, IH. reflexivity.
  Qed.

  Lemma parts_ordered_filter : forall f parts,
    parts_ordered parts -> parts_ordered (map (filter f) parts).
  Proof.
    induction parts as [|p ps IH]; simpl; intros H; [exact I|].
    destruct H as [Hx Hps]. split; [|apply IH; exact Hps].
    intros x y Hx0 Hy0. apply Hx.
    - apply filter_In in Hx0. tauto.
    - rewrite concat_map_filter in Hy0. apply filter_In in Hy0. tauto.
  Qed.

  Theorem filter_push_ok : forall f n a parts out,
    (forall i, a i < n) -> parts_ordered parts ->
    kmr n (fun j => filter f (leg a j parts)) out ->
    out = filter f (List.concat parts).
  Proof.
    intros f n a parts out Ha Hord Hk.
    rewrite <- concat_map_filter.
    set (m := List.length out + List.length (List.concat (map (filter f) parts))).
    assert (H : firstn m out = firstn m (List.concat (map (filter f) parts))).
    { apply (scatter_merge_head_gen n (map (filter f) parts) m a (fun _ => m)
               (fun j => filter f (leg a j parts)) out); auto.
      - apply parts_ordered_filter; exact Hord.
      - intros j Hj. rewrite leg_filter. symmetry. apply firstn_all2.
        pose proof (leg_length_le (map (filter f) parts) a j). unfold m. lia. }
    rewrite !firstn_all2 in H by (unfold m; lia). exact H.
  Qed.

  (* ---------------------------------------------------------------- *)
  (* merge and combine lose / duplicate nothing *)
  Lemma kmr_ilv : forall n (L : nat -> list A) (out : list A), kmr n L out -> ilv n L out.
  Proof.
    induction 1 as [L Hnil | L L' i x rest out Hi HLi Hmin HL' Hk IH].
    - apply il_nil; exact Hnil.
    - eapply il_pick; eauto.
  Qed.

  Lemma flat_map_nil : forall (L : nat -> list A) js,
    (forall j, In j js -> L j = []) -> flat_map L js = [].
  Proof.
    induction js as [|j js IH]; simpl; intros H; [reflexivity|].
    rewrite (H j) by (left; reflexivity). simpl. apply IH. intros; apply H; right; assumption.
  Qed.

  Lemma flat_map_ext_in' : forall (f g : nat -> list A) js,
    (forall j, In j js -> f j = g j) -> flat_map f js = flat_map g js.
  Proof.
    induction js as [|j js IH]; simpl; intros H; [reflexivity|].
    rewrite (H j) by (left; reflexivity). f_equal. apply IH. intros; apply H; right; assumption.
  Qed.

  Lemma pick_perm : forall (L L' : nat -> list A) i x rest js,
    NoDup js -> In i js -> L i = x :: rest ->
    (forall j, In j js -> L' j = if Nat.eqb j i then rest else L j) ->
    Permutation (flat_map L js) (x :: flat_map L' js).
  Proof.
    intros L L' i x rest js. induction js as [|j js IH]; intros Hnd Hin HLi HL'; [destruct Hin|].
    inversion Hnd as [|j0 js0 Hnotin Hnd']; subst. simpl.
    destruct (Nat.eq_dec j i) as [E|NE].
    - subst j. rewrite HLi, (HL' i) by (left; reflexivity). rewrite Nat.eqb_refl. simpl.
      apply perm_skip. apply Permutation_app_head.
      assert (E : flat_map L js = flat_map L' js).
      { apply flat_map_ext_in'. intros j Hj. symmetry. rewrite (HL' j) by (right; exact Hj).
        destruct (Nat.eqb j i) eqn:E; [apply Nat.eqb_eq in E; subst; contradiction|reflexivity]. }
      rewrite E. apply Permutation_refl.
    - destruct Hin as [Hin|Hin]; [congruence|].
      rewrite (HL' j) by (left; reflexivity).
      destruct (Nat.eqb j i) eqn:E; [apply Nat.eqb_eq in E; congruence|].
      eapply Permutation_trans.
      + apply Permutation_app_head. apply IH; auto. intros j' Hj'. apply HL'. right; exact Hj'.
      + apply Permutation_sym. apply Permutation_middle.
  Qed.

  Theorem combine_perm : forall n (L : nat -> list A) (out : list A), ilv n L out -> Permutation out (all_of n L).
  Proof.
    induction 1 as [L Hnil | L L' i x rest out Hi HLi HL' Hk IH]; unfold all_of in *.
    - rewrite flat_map_nil; [apply Permutation_refl|]. intros j Hj. apply Hnil. apply in_seq in Hj. lia.
    - apply Permutation_sym. eapply Permutation_trans.
      + apply (pick_perm L L' i x rest); auto.
        * apply seq_NoDup.
        * apply in_seq. lia.
        * intros j Hj. apply HL'. apply in_seq in Hj. lia.
      + apply perm_skip. apply Permutation_sym. exact IH.
  Qed.

  Hypothesis leb_trans : forall a b c, leb a b = true -> leb b c = true -> leb a c = true.

  Lemma sorted_hd_in : forall l x y, sorted l -> hd_ok x l -> In y l -> leb x y = true.
  Proof.
    intros [|z l] x y Hs Hh Hin; [destruct Hin|]. simpl in *.
    destruct Hin as [E|Hin]; [subst; exact Hh|].
    destruct Hs as [Hz _]. eapply leb_trans; [exact Hh | apply Hz; exact Hin].
  Qed.

  Theorem merge_sorted_perm : forall n (L : nat -> list A) (out : list A),
    (forall j, j < n -> sorted (L j)) -> kmr n L out ->
    sorted out /\ Permutation out (all_of n L).
  Proof.
    intros n L out Hs Hk. split; [|apply combine_perm, kmr_ilv; exact Hk].
    induction Hk as [L Hnil | L L' i x rest out Hi HLi Hmin HL' Hk IH]; [exact I|].
    assert (Hs' : forall j, j < n -> sorted (L' j)).
    { intros j Hj. rewrite (HL' j Hj). destruct (Nat.eqb j i) eqn:E; [|apply Hs; exact Hj].
      specialize (Hs i Hi). rewrite HLi in Hs. destruct Hs as [_ H]; exact H. }
    split; [|apply IH; exact Hs'].
    intros y Hy.
    pose proof (combine_perm _ _ _ (kmr_ilv _ _ _ Hk)) as Hp.
    apply (Permutation_in _ Hp) in Hy. unfold all_of in Hy.
    apply in_flat_map in Hy. destruct Hy as [j [Hj Hy]]. apply in_seq in Hj.
    assert (Hjn : j < n) by lia.
    rewrite (HL' j Hjn) in Hy. destruct (Nat.eqb j i) eqn:E.
    - specialize (Hs i Hi). rewrite HLi in Hs. destruct Hs as [H _]. apply H; exact Hy.
    - apply (sorted_hd_in (L j)); auto.
  Qed.

  (* ---------------------------------------------------------------- *)
  (* the executable merge is an instance of the relation *)
  Hypothesis leb_total : forall a b, leb a b = true \/ leb b a = true.

  Lemma hd_ok_trans : forall a b l, leb a b = true -> hd_ok b l -> hd_ok a l.
  Proof. intros a b [|z l] H1 H2; simpl in *; [exact I|]. eapply leb_trans; eauto. Qed.

  Lemma minidx_none : forall legs, minidx leb legs = None -> forall j, nth j legs [] = [].
  Proof.
    induction legs as [|l ls IH]; simpl; intros H j; [destruct j; reflexivity|].
    destruct l as [|x0 l0]; destruct (minidx leb ls) as [[i' y]|] eqn:E; try discriminate.
    - destruct j; [reflexivity|]. apply IH; reflexivity.
    - destruct (leb x0 y); discriminate.
  Qed.

  Lemma minidx_some : forall legs i x, minidx leb legs = Some (i, x) ->
    i < List.length legs /\ (exists rest, nth i legs [] = x :: rest) /\
    forall j, hd_ok x (nth j legs []).
  Proof.
    induction legs as [|l ls IH]; simpl; intros i x H; [discriminate|].
    destruct l as [|x0 l0]; destruct (minidx leb ls) as [[i' y]|] eqn:E; try discriminate.
    - inversion H; subst. destruct (IH i' x eq_refl) as [H1 [H2 H3]].
      split; [lia|]. split; [exact H2|]. intros [|j]; [exact I|apply H3].
    - destruct (IH i' y eq_refl) as [H1 [H2 H3]].
      destruct (leb x0 y) eqn:Exy; inversion H; subst.
      + split; [lia|]. split; [eexists; reflexivity|].
        intros [|j]; simpl.
        * destruct (leb_total x x) as [R|R]; exact R.
        * eapply hd_ok_trans; [exact Exy | apply H3].
      + split; [lia|]. split; [exact H2|].
        intros [|j]; simpl; [|apply H3].
        destruct (leb_total x0 x) as [R|R]; [congruence|exact R].
    - inversion H; subst. split; [lia|]. split; [eexists; reflexivity|].
      intros [|j]; simpl.
      + destruct (leb_total x x) as [R|R]; exact R.
      + rewrite (minidx_none ls E). exact I.
  Qed.

  Lemma upd_length : forall legs i (v : list A), List.length (upd i v legs) = List.length legs.
  Proof. induction legs as [|l ls IH]; intros [|i] v; simpl; auto. Qed.

  Lemma nth_upd : forall legs i (v : list A) j, i < List.length legs ->
    nth j (upd i v legs) [] = if Nat.eqb j i then v else nth j legs [].
  Proof.
    induction legs as [|l ls IH]; intros i v j Hi; simpl in *; [lia|].
    destruct i as [|i]; destruct j as [|j]; simpl; try reflexivity.
    apply IH. lia.
  Qed.

  Lemma total_len_upd : forall legs i x (rest : list A), nth i legs [] = x :: rest ->
    total_len legs = S (total_len (upd i rest legs)).
  Proof.
    unfold total_len.
    induction legs as [|l ls IH]; intros i x rest H; [destruct i; discriminate|].
    destruct i as [|i]; simpl in *.
    - subst l. simpl. reflexivity.
    - rewrite !app_length. rewrite (IH i x rest H). lia.
  Qed.

  Theorem kmerge_kmr : forall fuel legs, total_len legs < fuel ->
    kmr (List.length legs) (fun j => nth j legs []) (kmerge leb fuel legs).
  Proof.
    induction fuel as [|f IH]; intros legs Hf; [lia|]. simpl.
    destruct (minidx leb legs) as [[i x]|] eqn:E.
    - destruct (minidx_some legs i x E) as [Hi [[rest Hr] Hmin]].
      rewrite Hr. simpl.
      apply (km_pick leb (List.length legs) (fun j => nth j legs []) (fun j => nth j (upd i rest legs) []) i x rest); auto.
      + intros j _. apply nth_upd; exact Hi.
      + rewrite <- (upd_length legs i rest). apply IH.
        rewrite (total_len_upd legs i x rest Hr) in Hf. lia.
    - apply km_nil. intros j _. apply minidx_none; exact E.
  Qed.
End ScatterProofs.

(* Without order preservation the statement fails: if the operator lifted into
   the legs erases the merge key (all values compare equal, as after
   `cut` of other fields), the merge may emit the partitions in any order. *)
Example lift_erasing_key_refuted :
  exists out, kmr (fun _ _ : nat => true) 2 (fun j => leg (fun i => i) j [[1]; [2]]) out
              /\ out <> List.concat [[1]; [2]].
Proof.
  exists [2; 1]. split; [|discriminate].
  apply (km_pick _ 2 _ (fun j => if Nat.eqb j 1 then [] else leg (fun i => i) j [[1]; [2]]) 1 2 []); auto.
  - intros [|[|j]] _; simpl; auto.
  - apply (km_pick _ 2 _ (fun j => []) 0 1 []); auto.
    + intros [|[|j]] _; simpl; auto.
    + intros [|[|j]] Hj; simpl; auto; lia.
    + apply km_nil. auto.
Qed.

(* ------------------------------------------------------------------ *)
Section PartialsProofs.
  Context {A M : Type}.
  Variable op : M -> M -> M.
  Variable e : M.
  Variable inj : A -> M.
  Hypothesis op_assoc : forall a b c, op a (op b c) = op (op a b) c.
  Hypothesis op_comm : forall a b, op a b = op b a.
  Hypothesis op_e : forall a, op e a = a.

  Notation agg := (agg op e inj).
  Notation combine_partials := (combine_partials op e).

  Lemma agg_app : forall l1 l2, agg (l1 ++ l2) = op (agg l1) (agg l2).
  Proof.
    induction l1 as [|x l1 IH]; intros l2; simpl; [symmetry; apply op_e|].
    rewrite IH. apply op_assoc.
  Qed.

  Lemma agg_perm : forall l l', Permutation l l' -> agg l = agg l'.
  Proof.
    induction 1 as [|x l l' H IH|x y l|l l' l'' H1 IH1 H2 IH2]; simpl.
    - reflexivity.
    - rewrite IH; reflexivity.
    - rewrite !op_assoc. rewrite (op_comm (inj y) (inj x)). reflexivity.
    - congruence.
  Qed.

  Lemma combine_perm_inv : forall ms ms', Permutation ms ms' -> combine_partials ms = combine_partials ms'.
  Proof.
    induction 1 as [|x l l' H IH|x y l|l l' l'' H1 IH1 H2 IH2]; simpl.
    - reflexivity.
    - rewrite IH; reflexivity.
    - rewrite !op_assoc. rewrite (op_comm y x). reflexivity.
    - congruence.
  Qed.

  Lemma agg_flat_map : forall (L : nat -> list A) js,
    agg (flat_map L js) = combine_partials (map (fun j => agg (L j)) js).
  Proof.
    induction js as [|j js IH]; simpl; [reflexivity|]. rewrite agg_app, IH. reflexivity.
  Qed.

  Lemma flat_map_app_perm : forall (f g : nat -> list A) js,
    Permutation (flat_map (fun j => f j ++ g j) js) (flat_map f js ++ flat_map g js).
  Proof.
    induction js as [|j js IH]; simpl; [apply Permutation_refl|].
    rewrite <- !app_assoc. apply Permutation_app_head.
    eapply Permutation_trans; [apply Permutation_app_head; exact IH|].
    apply Permutation_app_swap_app.
  Qed.

  Lemma flat_map_single : forall (p : list A) i js, NoDup js ->
    flat_map (fun j => if Nat.eqb i j then p else []) js = if existsb (Nat.eqb i) js then p else [].
  Proof.
    induction js as [|j js IH]; intros Hnd; simpl; [reflexivity|].
    inversion Hnd as [|j0 js0 Hnotin Hnd']; subst.
    rewrite (IH Hnd'). destruct (Nat.eqb i j) eqn:E; simpl; [|reflexivity].
    apply Nat.eqb_eq in E. subst j.
    destruct (existsb (Nat.eqb i) js) eqn:E2; [|apply app_nil_r].
    apply existsb_exists in E2. destruct E2 as [j [Hj E3]]. apply Nat.eqb_eq in E3. subst. contradiction.
  Qed.

  (* every value is scanned by exactly one leg *)
  Lemma legs_perm : forall n (parts : list (list A)) a, (forall i, a i < n) ->
    Permutation (List.concat parts) (flat_map (fun j => leg a j parts) (seq 0 n)).
  Proof.
    intros n. induction parts as [|p ps IH]; intros a Ha; simpl.
    - rewrite flat_map_nil; [apply Permutation_refl | reflexivity].
    - eapply Permutation_trans; [|apply Permutation_sym; apply flat_map_app_perm].
      rewrite flat_map_single by apply seq_NoDup.
      assert (E : existsb (Nat.eqb (a 0)) (seq 0 n) = true).
      { apply existsb_exists. exists (a 0). split; [apply in_seq; specialize (Ha 0); lia | apply Nat.eqb_refl]. }
      rewrite E. apply Permutation_app_head. apply IH. intros i; apply Ha.
  Qed.

  (* summarize split into partials-out legs and a partials-in tail: for every
     assignment of partitions to legs and every arrival order of the partials *)
  Theorem partials_compose : forall n a parts ms,
    (forall i, a i < n) ->
    Permutation ms (map (fun j => agg (leg a j parts)) (seq 0 n)) ->
    combine_partials ms = agg (List.concat parts).
  Proof.
    intros n a parts ms Ha Hp.
    rewrite (combine_perm_inv _ _ Hp), <- agg_flat_map.
    symmetry. apply agg_perm. apply legs_perm; exact Ha.
  Qed.

  (* the same per group: [g] selects the values of one group *)
  Theorem partials_compose_by : forall (g : A -> bool) n a parts ms,
    (forall i, a i < n) ->
    Permutation ms (map (fun j => agg (filter g (leg a j parts))) (seq 0 n)) ->
    combine_partials ms = agg (filter g (List.concat parts)).
  Proof.
    intros g n a parts ms Ha Hp.
    rewrite <- concat_map_filter.
    apply (partials_compose n a (map (filter g) parts) ms Ha).
    eapply Permutation_trans; [exact Hp|].
    erewrite map_ext; [apply Permutation_refl|]. intros j. simpl. rewrite leg_filter. reflexivity.
  Qed.
End PartialsProofs.

(* instances: count, sum, min *)
Corollary count_partials : forall {A} n a (parts : list (list A)),
  (forall i, a i < n) ->
  fold_right Nat.add 0 (map (fun j => List.length (leg a j parts)) (seq 0 n)) = List.length (List.concat parts).
Proof.
  intros A n a parts Ha.
  assert (E : forall l : list A, agg Nat.add 0 (fun _ => 1) l = List.length l).
  { unfold agg. induction l as [|x l IH]; simpl; [reflexivity | f_equal; exact IH]. }
  pose proof (partials_compose Nat.add 0 (fun _ : A => 1) Nat.add_assoc Nat.add_comm Nat.add_0_l n a parts
               (map (fun j => agg Nat.add 0 (fun _ => 1) (leg a j parts)) (seq 0 n)) Ha (Permutation_refl _)) as H.
  rewrite E in H. rewrite <- H. unfold combine_partials.
  apply (f_equal (fold_right Nat.add 0)). apply map_ext. intros j. symmetry. apply E.
Qed.

Corollary sum_partials : forall n a (parts : list (list Z)),
  (forall i, a i < n) ->
  fold_right Z.add 0%Z (map (fun j => fold_right Z.add 0%Z (leg a j parts)) (seq 0 n))
  = fold_right Z.add 0%Z (List.concat parts).
Proof.
  intros n a parts Ha.
  exact (partials_compose Z.add 0%Z (fun z => z) Z.add_assoc Z.add_comm Z.add_0_l n a parts _ Ha (Permutation_refl _)).
Qed.

Definition omin_z (a b : option Z) : option Z :=
  match a, b with
  | None, x | x, None => x
  | Some x, Some y => Some (Z.min x y)
  end.

Corollary min_partials : forall n a (parts : list (list Z)),
  (forall i, a i < n) ->
  fold_right omin_z None (map (fun j => fold_right (fun z m => omin_z (Some z) m) None (leg a j parts)) (seq 0 n))
  = fold_right (fun z m => omin_z (Some z) m) None (List.concat parts).
Proof.
  intros n a parts Ha.
  refine (partials_compose omin_z None (fun z => Some z) _ _ _ n a parts _ Ha (Permutation_refl _)).
  - intros [x|] [y|] [z|]; simpl; try reflexivity. f_equal. apply Z.min_assoc.
  - intros [x|] [y|]; simpl; try reflexivity. f_equal. apply Z.min_comm.
  - intros [x|]; reflexivity.
Qed.

(* ------------------------------------------------------------------ *)
(* The lake order on keys is a total preorder, in both directions. *)
Lemma bytes_le_trans : forall a b c,
  bytes_cmp a b <> Gt -> bytes_cmp b c <> Gt -> bytes_cmp a c <> Gt.
Proof.
  intros a b c H1 H2.
  destruct (bytes_cmp a b) eqn:E1; [| |congruence].
  - apply bytes_cmp_eq in E1. subst. exact H2.
  - destruct (bytes_cmp b c) eqn:E2; [| |congruence].
    + apply bytes_cmp_eq in E2. subst. rewrite E1. discriminate.
    + rewrite (bytes_cmp_lt_trans a b c E1 E2). discriminate.
Qed.

Lemma kle_trans : forall a b c, kle a b = true -> kle b c = true -> kle a c = true.
Proof.
  intros [x|x|] [y|y|] [z|z|]; simpl; intros H1 H2; try reflexivity; try discriminate.
  - apply Z.leb_le in H1, H2. apply Z.leb_le. lia.
  - assert (N1 : bytes_cmp x y <> Gt) by (destruct (bytes_cmp x y); congruence).
    assert (N2 : bytes_cmp y z <> Gt) by (destruct (bytes_cmp y z); congruence).
    pose proof (bytes_le_trans x y z N1 N2). destruct (bytes_cmp x z); congruence.
Qed.

Lemma kle_total : forall a b, kle a b = true \/ kle b a = true.
Proof.
  intros [x|x|] [y|y|]; simpl; auto.
  - destruct (Z.leb x y) eqn:E; [left; reflexivity|right]. apply Z.leb_le. apply Z.leb_gt in E. lia.
  - rewrite (bytes_cmp_antisym x y). destruct (bytes_cmp x y); simpl; auto.
Qed.

Lemma dle_trans : forall d a b c, dle d a b = true -> dle d b c = true -> dle d a c = true.
Proof. intros [|] a b c H1 H2; simpl in *; eapply kle_trans; eauto. Qed.

Lemma dle_total : forall d a b, dle d a b = true \/ dle d b a = true.
Proof. intros [|] a b; simpl; apply kle_total. Qed.

(* ------------------------------------------------------------------ *)
(* The executable scatter/merge of the model equals the concatenation of the
   partition runs for every number of legs and every assignment. *)
Lemma kmr_ext {A} (leb : A -> A -> bool) : forall n L L2 out,
  (forall j, j < n -> L j = L2 j) -> kmr leb n L out -> kmr leb n L2 out.
Proof.
  intros n L L2 out HE Hk. destruct Hk as [L Hnil | L L' i x rest out Hi HLi Hmin HL' Hk].
  - apply km_nil. intros j Hj. rewrite <- HE by exact Hj. apply Hnil; exact Hj.
  - apply (km_pick leb n L2 L' i x rest out); auto.
    + rewrite <- HE by exact Hi. exact HLi.
    + intros j Hj. rewrite <- HE by exact Hj. apply Hmin; exact Hj.
    + intros j Hj. rewrite <- HE by exact Hj. apply HL'; exact Hj.
Qed.

Theorem scatter_merge_exec_id {A} (leb : A -> A -> bool)
  (leb_trans : forall a b c, leb a b = true -> leb b c = true -> leb a c = true)
  (leb_total : forall a b, leb a b = true \/ leb b a = true) :
  forall n a parts, (forall i, a i < n) -> parts_ordered leb parts ->
  scatter_merge leb n a parts = List.concat parts.
Proof.
  intros n a parts Ha Hord. unfold scatter_merge.
  apply (scatter_merge_id leb n a parts); auto.
  assert (Hlen : List.length (legs_of n a parts) = n) by (unfold legs_of; rewrite map_length, seq_length; reflexivity).
  apply (kmr_ext leb n (fun j => nth j (legs_of n a parts) [])).
  - intros j Hj. unfold legs_of.
    rewrite (nth_indep _ [] (leg a 0 parts)) by (rewrite map_length, seq_length; exact Hj).
    rewrite (map_nth (fun j => leg a j parts) (seq 0 n) 0 j). rewrite seq_nth by exact Hj. reflexivity.
  - rewrite <- Hlen at 1. apply kmerge_kmr; auto.
    unfold total_len, legs_of. rewrite <- flat_map_concat_map.
    rewrite <- (Permutation_length (legs_perm n parts a Ha)). lia.
Qed.

Theorem scan_par_schedule_independent : forall desc n a objs,
  (forall i, a i < n) -> parts_ordered (dle desc) (runs_of desc objs) ->
  scan_par desc n a objs = List.concat (runs_of desc objs).
Proof.
  intros desc n a objs Ha Hord. unfold scan_par.
  apply scatter_merge_exec_id; auto.
  - apply dle_trans.
  - apply dle_total.
Qed.

(* non-vacuity: two legs, three ordered partitions *)
Example scatter_example :
  parts_ordered Nat.leb [[1; 2]; [3]; [4; 4]] /\
  scatter_merge Nat.leb 2 (fun i => Nat.modulo i 2) [[1; 2]; [3]; [4; 4]] = [1; 2; 3; 4; 4].
Proof.
  split; [|reflexivity]. simpl.
  repeat split; try exact I; intros x y Hx Hy; simpl in *;
    repeat (destruct Hx as [Hx|Hx]; try subst x; try contradiction);
    repeat (destruct Hy as [Hy|Hy]; try subst y; try contradiction); reflexivity.
Qed.

(* ------------------------------------------------------------------ *)
(* Slicer: on a Lister output sorted by object minimum (ascending pools),
   the partitions keep every object exactly once, in order, and every object
   of a later partition starts strictly after every object of an earlier
   partition ends. *)
Fixpoint obj_parts_ordered (ps : list (list obj)) : Prop :=
  match ps with
  | [] => True
  | p :: r => (forall c o, In c p -> In o (List.concat r) -> klt (omax c) (omin o) = true)
              /\ obj_parts_ordered r
  end.

Definition omin_le (a b : obj) : bool := kle (omin a) (omin b).

Lemma concat_slice_go : forall objs cur a b, List.concat (slice_go objs cur a b) = rev cur ++ objs.
Proof.
  induction objs as [|o r IH]; intros cur a b; simpl.
  - destruct cur; simpl; [reflexivity|]. rewrite !app_nil_r. reflexivity.
  - destruct cur as [|c cur].
    + rewrite IH. reflexivity.
    + destruct (klt (omax o) a || klt b (omin o)).
      * simpl. rewrite IH. simpl. rewrite <- app_assoc. reflexivity.
      * rewrite IH. simpl. rewrite <- !app_assoc. reflexivity.
Qed.

Lemma klt_false_kle : forall a b, klt a b = false -> kle b a = true.
Proof. unfold klt. intros a b H. destruct (kle b a); [reflexivity|discriminate]. Qed.

Lemma kle_klt_kle : forall a b c d, kle a b = true -> klt b c = true -> kle c d = true -> klt a d = true.
Proof.
  unfold klt. intros a b c d H1 H2 H3.
  destruct (kle d a) eqn:E; [|reflexivity].
  assert (H : kle c b = true) by (eapply kle_trans; [exact H3|]; eapply kle_trans; [exact E|exact H1]).
  rewrite H in H2. discriminate.
Qed.

Lemma kle_refl : forall a, kle a a = true.
Proof. intros a. destruct (kle_total a a); assumption. Qed.

Lemma slice_go_ordered : forall objs cur smin smax,
  sorted omin_le objs -> (forall o, In o objs -> kle (omin o) (omax o) = true) ->
  (cur <> [] -> (forall c, In c cur -> kle (omax c) smax = true) /\
                (forall o, In o objs -> kle smin (omin o) = true)) ->
  obj_parts_ordered (slice_go objs cur smin smax).
Proof.
  induction objs as [|o r IH]; intros cur smin smax Hs Hv Hinv; simpl.
  - destruct cur; simpl; auto.
  - destruct Hs as [Ho Hr].
    assert (Hvr : forall o', In o' r -> kle (omin o') (omax o') = true) by (intros; apply Hv; right; assumption).
    assert (Hstart : obj_parts_ordered (slice_go r [o] (omin o) (omax o))).
    { apply IH; auto. intros _. split.
      - intros c [E|[]]. subst c. apply kle_refl.
      - intros o' Ho'. apply Ho; exact Ho'. }
    destruct cur as [|c0 cur]; [exact Hstart|].
    destruct Hinv as [Hmax Hmin]; [discriminate|].
    assert (Hno : klt (omax o) smin = false).
    { unfold klt. assert (H : kle smin (omax o) = true).
      { eapply kle_trans; [apply Hmin; left; reflexivity | apply Hv; left; reflexivity]. }
      rewrite H. reflexivity. }
    rewrite Hno. simpl.
    destruct (klt smax (omin o)) eqn:Eclose.
    + simpl. split; [|exact Hstart].
      intros c o' Hc Ho'. rewrite concat_slice_go in Ho'. simpl in Ho'.
      apply (kle_klt_kle (omax c) smax (omin o) (omin o')).
      * apply Hmax. apply in_rev. exact Hc.
      * exact Eclose.
      * destruct Ho' as [E|Ho']; [subst; apply kle_refl | apply Ho; exact Ho'].
    + apply IH; auto. intros _. split.
      * intros c [E|Hc].
        -- subst c. destruct (klt smax (omax o)) eqn:E2; [apply kle_refl | apply klt_false_kle; exact E2].
        -- destruct (klt smax (omax o)) eqn:E2; [|apply Hmax; exact Hc].
           eapply kle_trans; [apply Hmax; exact Hc|].
           unfold klt in E2. destruct (kle_total smax (omax o)) as [T|T]; [exact T|].
           rewrite T in E2. discriminate.
      * intros o' Ho'. destruct (klt (omin o) smin) eqn:E2.
        -- apply Ho; exact Ho'.
        -- apply Hmin. right; exact Ho'.
Qed.

Theorem slicer_partitions : forall objs,
  sorted omin_le objs -> (forall o, In o objs -> kle (omin o) (omax o) = true) ->
  List.concat (slice objs) = objs /\ obj_parts_ordered (slice objs).
Proof.
  intros objs Hs Hv. unfold slice. split.
  - rewrite concat_slice_go. reflexivity.
  - apply slice_go_ordered; auto; intros H; congruence.
Qed.

Example slicer_example :
  slice [ (KInt 1, KInt 5, []); (KInt 3, KInt 9, []); (KInt 9, KInt 9, []); (KInt 10, KNull, []); (KStr [], KNull, []) ]
  = [ [ (KInt 1, KInt 5, []); (KInt 3, KInt 9, []); (KInt 9, KInt 9, []) ]; [ (KInt 10, KNull, []); (KStr [], KNull, []) ] ].
Proof. reflexivity. Qed.
