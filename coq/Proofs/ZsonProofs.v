(* C02: proofs about the decorator logic (Model/Zson.v).
   PL   a value formatted under a known type is read back by that type;
   FTg  formatType is read back by convertType, typedefs included;
   UL   a value formatted without a known type carries sufficient decorators;
   top_roundtrip / stream_roundtrip: FormatValue/ParseValue and sequences. *)
From ZV Require Import Base.Prelude Model.Escape Model.Zson Model.ZsonSpec.
Local Open Scope N_scope.

Section TyInd.
  Variable P : ty -> Prop.
  Hypothesis HPrim : forall p, P (TPrim p).
  Hypothesis HRec : forall fs, Forall (fun nt => P (snd nt)) fs -> P (TRec fs).
  Hypothesis HArr : forall t, P t -> P (TArr t).
  Hypothesis HNamed : forall n t, P t -> P (TNamed n t).
  Fixpoint ty_ind' (t : ty) : P t :=
    match t with
    | TPrim p => HPrim p
    | TRec fs =>
      HRec fs ((fix go (fs : list (name * ty)) : Forall (fun nt => P (snd nt)) fs :=
                  match fs with
                  | [] => Forall_nil _
                  | (n, ft) :: fr => Forall_cons (n, ft) (ty_ind' ft) (go fr)
                  end) fs)
    | TArr u => HArr u (ty_ind' u)
    | TNamed n u => HNamed n u (ty_ind' u)
    end.
End TyInd.

Lemma name_eqb_eq n m : name_eqb n m = true <-> n = m.
Proof. apply list_eqb_eq. intros; apply N.eqb_eq. Qed.
Lemma name_eqb_refl n : name_eqb n n = true.
Proof. apply name_eqb_eq. reflexivity. Qed.

Lemma ty_eqb_refl : forall t, ty_eqb t t = true.
Proof.
  induction t as [p | fs IH | t IH | n t IH] using ty_ind'; simpl.
  - apply N.eqb_refl.
  - induction IH as [| [n ft] fr H _ IHfr]; [reflexivity|].
    simpl in H. rewrite name_eqb_refl, H, IHfr. reflexivity.
  - exact IH.
  - rewrite name_eqb_refl, IH. reflexivity.
Qed.

Lemma ty_eqb_eq : forall a b, ty_eqb a b = true -> a = b.
Proof.
  induction a as [p|fs IH|t IH|n t IH] using ty_ind'; destruct b as [q|gs|u|m u]; simpl; try discriminate; intros E.
  - apply N.eqb_eq in E; congruence.
  - f_equal. revert gs E. induction IH as [|[n ft] fr H _ IHfr]; destruct gs as [|[m gt] gr]; try discriminate; intros E; [reflexivity|].
    apply andb_true_iff in E as [E1 E3]. apply andb_true_iff in E1 as [E1 E2].
    apply name_eqb_eq in E1. simpl in H. apply H in E2. subst. f_equal. apply IHfr. exact E3.
  - f_equal; auto.
  - apply andb_true_iff in E as [E1 E2]. apply name_eqb_eq in E1. f_equal; auto.
Qed.

Lemma names_of_rec n ft fr : names_of (TRec ((n, ft) :: fr)) = names_of ft ++ names_of (TRec fr).
Proof. reflexivity. Qed.
Lemma good_rec n ft fr : good (TRec ((n, ft) :: fr)) = (good ft /\ good (TRec fr)).
Proof. reflexivity. Qed.

Lemma wf_rec_cons n ft fr x xr : wf (TRec ((n, ft) :: fr)) (VRec (x :: xr)) = (wf ft x /\ wf (TRec fr) (VRec xr)).
Proof. reflexivity. Qed.
Lemma wf_arr_cons u x xr : wf (TArr u) (VArr (x :: xr)) = (wf u x /\ wf (TArr u) (VArr xr)).
Proof. reflexivity. Qed.

(* list helpers with which the nested fixpoints of the model are restated *)
Definition fv_fields (P : persist) (known pi : bool)
  : list (name * ty) -> list val -> fstate -> list (name * zval) * fstate :=
  fix go (fs : list (name * ty)) (vs : list val) (st : fstate) : list (name * zval) * fstate :=
    match fs, vs with
    | (n, ft) :: fr, x :: xr =>
      let '(z, _, st1) := fv P st ft x known pi true in
      let '(zs, st2) := go fr xr st1 in ((n, z) :: zs, st2)
    | _, _ => ([], st)
    end.

Definition fv_elems (P : persist) (known pi : bool) (u : ty)
  : list val -> fstate -> list zval * fstate :=
  fix go (vs : list val) (st : fstate) : list zval * fstate :=
    match vs with
    | [] => ([], st)
    | x :: xr =>
      let '(z, _, st1) := fv P st u x known pi true in
      let '(zs, st2) := go xr st1 in (z :: zs, st2)
    end.

Definition fin (P : persist) (t : ty) (pk dec : bool) (r : zval * bool * fstate) : zval * bool * fstate :=
  let '(z, isnull, st1) := r in
  if dec then let '(d, st2) := decorate P st1 t pk isnull in (wrap z d, isnull, st2)
  else (z, isnull, st1).

Lemma fv_null P st t pk pi dec :
  fv P st t VNull pk pi dec =
  if dec then let '(d, st1) := decorate P st t (if pi then false else pk) true in (wrap znull d, true, st1)
  else (znull, true, st).
Proof. destruct t; reflexivity. Qed.

Lemma fv_prim P st p cls tok pk pi dec :
  fv P st (TPrim p) (VPrim cls tok) pk pi dec = fin P (TPrim p) pk dec (ZImplied (APrim cls tok), false, st).
Proof. reflexivity. Qed.

Lemma fv_rec P st fs vs pk pi dec :
  fv P st (TRec fs) (VRec vs) pk pi dec =
  fin P (TRec fs) pk dec
    (let '(zs, st1) := fv_fields P (pk || false) pi fs vs st in (ZImplied (ARec zs), false, st1)).
Proof. reflexivity. Qed.

Lemma fv_arr_nil P st u pk pi dec :
  fv P st (TArr u) (VArr []) pk pi dec = fin P (TArr u) pk dec (ZImplied (AArr []), true, st).
Proof. reflexivity. Qed.

Lemma fv_arr_cons P st u x xr pk pi dec :
  fv P st (TArr u) (VArr (x :: xr)) pk pi dec =
  fin P (TArr u) pk dec
    (let '(zs, st1) := fv_elems P (pk || false) pi u (x :: xr) st in (ZImplied (AArr zs), false, st1)).
Proof. reflexivity. Qed.

Lemma fv_named P st n u v pk pi dec : v <> VNull ->
  fv P st (TNamed n u) v pk pi dec =
  fin P (TNamed n u) pk dec (fv P st u v (pk || has_name P st (TNamed n u)) pi false).
Proof. destruct v; [congruence | reflexivity ..]. Qed.

Lemma fv_fields_cons P known pi n ft fr x xr st :
  fv_fields P known pi ((n, ft) :: fr) (x :: xr) st =
  let '(z, _, st1) := fv P st ft x known pi true in
  let '(zs, st2) := fv_fields P known pi fr xr st1 in ((n, z) :: zs, st2).
Proof. reflexivity. Qed.

Lemma fv_elems_cons P known pi u x xr st :
  fv_elems P known pi u (x :: xr) st =
  let '(z, _, st1) := fv P st u x known pi true in
  let '(zs, st2) := fv_elems P known pi u xr st1 in (z :: zs, st2).
Proof. reflexivity. Qed.

(* analyzer helpers *)
Definition conv_fields_cast : list (name * zval) -> list (name * ty) -> astate -> option (list val * astate) :=
  fix go (fs : list (name * zval)) (tfs : list (name * ty)) (a : astate) : option (list val * astate) :=
    match fs, tfs with
    | (_, z) :: fr, (_, ft) :: tr =>
      match conv_val a z (Some ft) with
      | Some (_, v, a1) =>
        match go fr tr a1 with Some (vs, a2) => Some (v :: vs, a2) | None => None end
      | None => None
      end
    | _, _ => Some ([], a)
    end.

Definition conv_fields_infer : list (name * zval) -> astate -> option (list (name * ty) * list val * astate) :=
  fix go (fs : list (name * zval)) (a : astate) : option (list (name * ty) * list val * astate) :=
    match fs with
    | [] => Some ([], [], a)
    | (n, z) :: fr =>
      match conv_val a z None with
      | Some (t, v, a1) =>
        match go fr a1 with
        | Some (ts, vs, a2) => Some ((n, t) :: ts, v :: vs, a2)
        | None => None
        end
      | None => None
      end
    end.

Definition conv_elems (ep : option ty) : list zval -> astate -> option (list ty * list val * astate) :=
  fix go (es : list zval) (a : astate) : option (list ty * list val * astate) :=
    match es with
    | [] => Some ([], [], a)
    | z :: er =>
      match conv_val a z ep with
      | Some (t, v, a1) =>
        match go er a1 with
        | Some (ts, vs, a2) => Some (t :: ts, v :: vs, a2)
        | None => None
        end
      | None => None
      end
    end.

Lemma conv_any_rec_cast a fs c tfs :
  under c = TRec tfs ->
  conv_any a (ARec fs) (Some c) =
  if Nat.eqb (List.length tfs) (List.length fs) then
    match conv_fields_cast fs tfs a with
    | Some (vs, a') => Some (c, VRec vs, a')
    | None => None
    end
  else None.
Proof. intros U. cbn [conv_any]. rewrite U. reflexivity. Qed.

Lemma conv_any_rec_infer a fs :
  conv_any a (ARec fs) None =
  match conv_fields_infer fs a with
  | Some (ts, vs, a') => Some (TRec ts, VRec vs, a')
  | None => None
  end.
Proof. reflexivity. Qed.

Lemma conv_any_arr_cast a es c u :
  under c = TArr u ->
  conv_any a (AArr es) (Some c) =
  match conv_elems (Some u) es a with
  | Some (ts, vs, a') => Some (c, VArr vs, a')
  | None => None
  end.
Proof. intros U. cbn [conv_any]. rewrite U. reflexivity. Qed.

Lemma conv_any_arr_infer a es :
  conv_any a (AArr es) None =
  match conv_elems None es a with
  | Some (ts, vs, a') =>
    match elem_type ts with Some u => Some (TArr u, VArr vs, a') | None => None end
  | None => None
  end.
Proof. reflexivity. Qed.

Lemma conv_any_prim_cast a cls tok c :
  conv_any a (APrim cls tok) (Some c) =
  if cast_ok cls c then Some (c, (if cls =? ID_NULL then VNull else VPrim cls tok), a) else None.
Proof. reflexivity. Qed.

Lemma conv_val_cast_implied a x y parent :
  conv_val a (ZCast (ZImplied x) y) parent =
  match conv_type a y with
  | None => None
  | Some (cast, a2) => if type_check cast parent then conv_any a2 x (Some cast) else None
  end.
Proof. reflexivity. Qed.

Lemma conv_val_def a x n parent :
  conv_val a (ZDef x n) parent =
  match conv_any a x parent with
  | Some (t, v, a1) =>
    if restates parent t n then Some (t, v, (n, t) :: a1)
    else let t' := if numeric n then t else TNamed n t in Some (t', v, (n, t') :: a1)
  | None => None
  end.
Proof. reflexivity. Qed.

Lemma cast_ok_under cls c c' : under c = under c' -> cast_ok cls c = cast_ok cls c'.
Proof. intros U. unfold cast_ok. rewrite U. reflexivity. Qed.

Lemma cast_ok_null c : cast_ok ID_NULL c = true.
Proof. reflexivity. Qed.

(* ---- association lists, the invariant between formatter and analyzer ---- *)
Lemma assoc_cons n m t l : assoc n ((m, t) :: l) = if name_eqb n m then Some t else assoc n l.
Proof. reflexivity. Qed.

Lemma name_eqb_neq n m : n <> m -> name_eqb n m = false.
Proof. intros H. destruct (name_eqb n m) eqn:E; [|reflexivity]. apply name_eqb_eq in E. contradiction. Qed.

Lemma name_of_named P st t n : name_of P st t = Some n -> exists u, t = TNamed n u.
Proof.
  destruct t as [| | |m u]; simpl; try discriminate.
  destruct (bound_to m (TNamed m u) (tdefs st)); [intros E; inversion E; eauto|].
  destruct (persist_enabled P && bound_to m (TNamed m u) (perm st)); [intros E; inversion E; eauto | discriminate].
Qed.

Lemma bound_to_assoc n t l : bound_to n t l = true -> assoc n l = Some t.
Proof.
  unfold bound_to. destruct (assoc n l) as [u|]; [|discriminate].
  intros E. apply ty_eqb_eq in E. congruence.
Qed.

Lemma name_of_sound P st a t n : Inv P st a -> name_of P st t = Some n -> assoc n a = Some t.
Proof.
  intros (I1 & I2 & _) H. destruct (name_of_named _ _ _ _ H) as (u & ->).
  simpl in H.
  destruct (bound_to n (TNamed n u) (tdefs st)) eqn:B1.
  - apply I1. apply bound_to_assoc. exact B1.
  - destruct (persist_enabled P) eqn:EP; simpl in H; [|discriminate].
    destruct (bound_to n (TNamed n u) (perm st)) eqn:B2; [|discriminate].
    apply (I2 eq_refl). apply bound_to_assoc. exact B2.
Qed.

Lemma frame_refl ns st : frame ns st st.
Proof. intros m _. split; reflexivity. Qed.

Lemma frame_trans ns1 ns2 st st1 st2 :
  frame ns1 st st1 -> frame ns2 st1 st2 -> frame (ns1 ++ ns2) st st2.
Proof.
  intros F1 F2 m H.
  assert (H1 : ~ In m ns1) by (intros X; apply H, in_or_app; left; exact X).
  assert (H2 : ~ In m ns2) by (intros X; apply H, in_or_app; right; exact X).
  destruct (F1 m H1) as [A1 B1]. destruct (F2 m H2) as [A2 B2].
  split; congruence.
Qed.

Lemma frame_weaken ns ns' st st' : incl ns ns' -> frame ns st st' -> frame ns' st st'.
Proof. intros I F m H. apply F. intros X. apply H, I, X. Qed.

Lemma name_of_frame P ns st st' n u :
  frame ns st st' -> ~ In n ns -> name_of P st' (TNamed n u) = name_of P st (TNamed n u).
Proof.
  intros F H. destruct (F n H) as [A B]. unfold name_of, bound_to. rewrite A, B. reflexivity.
Qed.

Lemma save_tdefs P st n t m :
  assoc m (tdefs (save_type P st n t)) = if name_eqb m n then Some t else assoc m (tdefs st).
Proof. reflexivity. Qed.

Lemma save_perm P st n t m :
  assoc m (perm (save_type P st n t)) =
  if persist_enabled P && persist_match P n then (if name_eqb m n then Some t else assoc m (perm st))
  else assoc m (perm st).
Proof. unfold save_type. simpl. destruct (persist_enabled P && persist_match P n); reflexivity. Qed.

Lemma frame_save P st n t : frame [n] st (save_type P st n t).
Proof.
  intros m H. assert (E : name_eqb m n = false).
  { apply name_eqb_neq. intros ->. apply H. left. reflexivity. }
  rewrite save_tdefs, save_perm, E. destruct (persist_enabled P && persist_match P n); split; reflexivity.
Qed.

Lemma Inv_save P st a n t : Inv P st a -> Inv P (save_type P st n t) ((n, t) :: a).
Proof.
  intros (I1 & I2 & I3). split; [|split].
  - intros m u. rewrite save_tdefs, assoc_cons. destruct (name_eqb m n); [auto | apply I1].
  - intros EP m u. rewrite save_perm, assoc_cons.
    destruct (persist_enabled P && persist_match P n) eqn:PM.
    + destruct (name_eqb m n); [auto | apply (I2 EP)].
    + intros H. specialize (I3 _ _ H).
      destruct (name_eqb m n) eqn:E; [|apply (I2 EP); exact H].
      apply name_eqb_eq in E. subst m. congruence.
  - intros m u. rewrite save_perm.
    destruct (persist_enabled P && persist_match P n) eqn:PM; [|apply I3].
    destruct (name_eqb m n) eqn:E; [|apply I3].
    apply name_eqb_eq in E. subst m. intros _. exact PM.
Qed.

(* ---- types without names ---- *)
Lemma anon_not_named t : names_of t = [] -> is_named t = false.
Proof. destruct t; simpl; congruence. Qed.

Lemma anon_under t : names_of t = [] -> under t = t.
Proof. destruct t; simpl; congruence. Qed.

Lemma name_of_nonnamed P st t : is_named t = false -> name_of P st t = None.
Proof. destruct t; simpl; congruence. Qed.

Lemma names_rec_nil n ft fr : names_of (TRec ((n, ft) :: fr)) = [] -> names_of ft = [] /\ names_of (TRec fr) = [].
Proof. rewrite names_of_rec. apply app_eq_nil. Qed.

Definition fmt_type_fields (P : persist) : list (name * ty) -> fstate -> list (name * tyast) * fstate :=
  fix go (fs : list (name * ty)) (st : fstate) : list (name * tyast) * fstate :=
    match fs with
    | [] => ([], st)
    | (n, ft) :: fr =>
      let '(y, st1) := fmt_type P st ft in
      let '(ys, st2) := go fr st1 in ((n, y) :: ys, st2)
    end.

Definition conv_type_fields : list (name * tyast) -> astate -> option (list (name * ty) * astate) :=
  fix go (fs : list (name * tyast)) (a : astate) : option (list (name * ty) * astate) :=
    match fs with
    | [] => Some ([], a)
    | (n, fy) :: fr =>
      match conv_type a fy with
      | Some (t, a1) =>
        match go fr a1 with Some (ts, a2) => Some ((n, t) :: ts, a2) | None => None end
      | None => None
      end
    end.

Lemma fmt_type_rec P st fs :
  fmt_type P st (TRec fs) = let '(ys, st') := fmt_type_fields P fs st in (YRec ys, st').
Proof. reflexivity. Qed.

Lemma conv_type_rec a ys :
  conv_type a (YRec ys) =
  match conv_type_fields ys a with Some (ts, a') => Some (TRec ts, a') | None => None end.
Proof. reflexivity. Qed.

Lemma fmt_type_named P st n u :
  fmt_type P st (TNamed n u) =
  match name_of P st (TNamed n u) with
  | Some m => (YName m, st)
  | None => let '(y, st2) := fmt_type P (save_type P st n (TNamed n u)) u in (YDef n y, st2)
  end.
Proof. reflexivity. Qed.

Lemma fmt_type_anon P : forall t st, names_of t = [] ->
  exists y, fmt_type P st t = (y, st) /\ forall a, conv_type a y = Some (t, a).
Proof.
  induction t as [p | fs IH | u IH | n u IH] using ty_ind'; intros st A.
  - exists (YPrim p). split; [reflexivity | reflexivity].
  - assert (L : exists ys, fmt_type_fields P fs st = (ys, st) /\ forall a, conv_type_fields ys a = Some (fs, a)).
    { induction IH as [| [n ft] fr H _ IHfr].
      - exists []. split; reflexivity.
      - apply names_rec_nil in A. destruct A as [A1 A2]. simpl in H.
        destruct (H st A1) as (y & F & C). destruct (IHfr A2) as (ys & Fs & Cs).
        exists ((n, y) :: ys). split.
        + cbn -[fmt_type]. rewrite F. fold (fmt_type_fields P). rewrite Fs. reflexivity.
        + intros a. cbn -[conv_type]. rewrite C. fold conv_type_fields. rewrite Cs. reflexivity. }
    destruct L as (ys & Fs & Cs). exists (YRec ys). split.
    + rewrite fmt_type_rec, Fs. reflexivity.
    + intros a. rewrite conv_type_rec, Cs. reflexivity.
  - simpl in A. destruct (IH st A) as (y & F & C). exists (YArr y). split.
    + cbn [fmt_type name_of]. rewrite F. reflexivity.
    + intros a. cbn [conv_type]. rewrite C. reflexivity.
  - discriminate.
Qed.

Lemma decorate_known P st t null : decorate P st t true null = (DNone, st).
Proof. reflexivity. Qed.

Lemma decorate_rec_false P st fs pk : decorate P st (TRec fs) pk false = (DNone, st).
Proof.
  unfold decorate. destruct pk; [reflexivity|]. cbn [orb negb andb name_of].
  destruct (implied (TRec fs)) eqn:E; [reflexivity|].
  cbn [selfdesc]. rewrite E. reflexivity.
Qed.

Lemma decorate_arr_false P st u pk : decorate P st (TArr u) pk false = (DNone, st).
Proof.
  unfold decorate. destruct pk; [reflexivity|]. cbn [orb negb andb name_of].
  destruct (implied (TArr u)) eqn:E; [reflexivity|].
  cbn [selfdesc]. rewrite E. reflexivity.
Qed.

(* a value that does not reveal its type, not bound to a name: the full type *)
Lemma decorate_null_unbound P st t :
  name_of P st t = None -> ty_eqb t (TPrim ID_NULL) = false ->
  decorate P st t false true = let '(y, st') := fmt_type P st t in (DCast y, st').
Proof.
  intros N E. unfold decorate. rewrite E, N. cbn [orb negb andb].
  rewrite andb_false_r. reflexivity.
Qed.

Lemma decorate_null_nulltype P st : decorate P st (TPrim ID_NULL) false true = (DNone, st).
Proof. reflexivity. Qed.

Lemma ty_eqb_prim u q : ty_eqb u (TPrim q) = true -> u = TPrim q.
Proof. apply ty_eqb_eq. Qed.

Lemma conv_znull a c : conv_val a znull (Some c) = Some (c, VNull, a).
Proof. reflexivity. Qed.

(* ---- values analysed under a type given by the context ---- *)
Definition PLstmt (P : persist) (t : ty) : Prop :=
  forall v st pk dec c,
    wf t v -> under c = under t ->
    (pk = false -> names_of (under t) = [] /\ (dec = true -> c = t /\ names_of t = [])) ->
    exists z nl, fv P st t v pk false dec = (z, nl, st) /\
                 (dec = false -> exists x, z = ZImplied x) /\
                 forall a, conv_val a z (Some c) = Some (c, v, a).

Lemma PL_null P t st pk dec c :
  (pk = false -> names_of (under t) = [] /\ (dec = true -> c = t /\ names_of t = [])) ->
  exists z nl, fv P st t VNull pk false dec = (z, nl, st) /\
               (dec = false -> exists x, z = ZImplied x) /\
               forall a, conv_val a z (Some c) = Some (c, VNull, a).
Proof.
  intros H. rewrite fv_null. destruct dec.
  - destruct pk.
    + rewrite decorate_known. exists znull, true. split; [reflexivity | split; [discriminate | intros; apply conv_znull]].
    + destruct (H eq_refl) as (_ & H2). destruct (H2 eq_refl) as (-> & A).
      destruct (ty_eqb t (TPrim ID_NULL)) eqn:E.
      * apply ty_eqb_prim in E. subst t. rewrite decorate_null_nulltype.
        exists znull, true. split; [reflexivity | split; [discriminate | intros; apply conv_znull]].
      * rewrite (decorate_null_unbound P st t (name_of_nonnamed _ _ _ (anon_not_named _ A)) E).
        destruct (fmt_type_anon P t st A) as (y & F & C). rewrite F.
        exists (ZCast znull y), true. split; [reflexivity|]. split; [discriminate|].
        intros a. unfold znull. rewrite conv_val_cast_implied, C.
        unfold type_check. rewrite ty_eqb_refl. reflexivity.
  - exists znull, true. split; [reflexivity | split; [intros _; eexists; reflexivity | intros; apply conv_znull]].
Qed.

Lemma val_eq_null (v : val) : {v = VNull} + {v <> VNull}.
Proof. destruct v; [left; reflexivity | right; discriminate ..]. Qed.

Lemma wf_named n u v : v <> VNull -> wf (TNamed n u) v = wf u v.
Proof. destruct v; [congruence | reflexivity ..]. Qed.

Lemma wf_prim_inv p v : v <> VNull -> wf (TPrim p) v ->
  exists cls tok, v = VPrim cls tok /\ cls <> ID_NULL /\ p <> ID_NULL /\
                  cast_ok cls (TPrim p) = true /\ (implied_prim p = true -> cls = p).
Proof. destruct v; simpl; try congruence; try contradiction. intros _ H. eauto 8. Qed.

Lemma wf_rec_inv fs v : v <> VNull -> wf (TRec fs) v -> exists vs, v = VRec vs.
Proof. destruct v; simpl; try congruence; try contradiction. eauto. Qed.

Lemma wf_arr_inv u v : v <> VNull -> wf (TArr u) v -> exists vs, v = VArr vs.
Proof. destruct v; simpl; try congruence; try contradiction. eauto. Qed.

Lemma PL_fields P : forall fs,
  Forall (fun nt => PLstmt P (snd nt)) fs ->
  forall vs st pk, wf (TRec fs) (VRec vs) -> (pk = false -> names_of (TRec fs) = []) ->
  exists zs, fv_fields P pk false fs vs st = (zs, st) /\ List.length zs = List.length fs /\
             forall a, conv_fields_cast zs fs a = Some (vs, a).
Proof.
  induction 1 as [| [n ft] fr H _ IHfr]; intros vs st pk W A.
  - destruct vs; [|simpl in W; contradiction]. exists []. repeat split; reflexivity.
  - destruct vs as [|x xr]; [simpl in W; contradiction|].
    rewrite wf_rec_cons in W. destruct W as [W1 W2]. simpl in H.
    assert (A' : pk = false -> names_of ft = [] /\ names_of (TRec fr) = []).
    { intros E. apply (names_rec_nil n). auto. }
    destruct (H x st pk true ft W1 eq_refl) as (z & nl & F & _ & C).
    { intros E. destruct (A' E) as [A1 _]. rewrite (anon_under _ A1). auto. }
    destruct (IHfr xr st pk W2) as (zs & Fs & L & Cs).
    { intros E. apply A'. exact E. }
    exists ((n, z) :: zs). split; [|split].
    + rewrite fv_fields_cons, F, Fs. reflexivity.
    + simpl. rewrite L. reflexivity.
    + intros a. cbn -[conv_val]. rewrite C. fold conv_fields_cast. rewrite Cs. reflexivity.
Qed.

Lemma PL_elems P u : PLstmt P u ->
  forall vs st pk, wf (TArr u) (VArr vs) -> (pk = false -> names_of u = []) ->
  exists zs, fv_elems P pk false u vs st = (zs, st) /\
             forall a, conv_elems (Some u) zs a = Some (map (fun _ => u) vs, vs, a).
Proof.
  intros H. induction vs as [|x xr IHx]; intros st pk W A.
  - exists []. split; reflexivity.
  - rewrite wf_arr_cons in W. destruct W as [W1 W2].
    destruct (H x st pk true u W1 eq_refl) as (z & nl & F & _ & C).
    { intros E. rewrite (anon_under _ (A E)). auto. }
    destruct (IHx st pk W2 A) as (zs & Fs & Cs).
    exists (z :: zs). split.
    + rewrite fv_elems_cons, F, Fs. reflexivity.
    + intros a. cbn -[conv_val]. rewrite C. fold (conv_elems (Some u)). rewrite Cs. reflexivity.
Qed.

Ltac fin_plain Plain :=
  eexists _, _; split; [reflexivity | split; [intros _; eexists; reflexivity | exact Plain]].

Lemma PL P : forall t, PLstmt P t.
Proof.
  induction t as [p | fs IH | u IH | n u IH] using ty_ind'; intros v st pk dec c W U H;
    (destruct (val_eq_null v) as [-> | NN]; [apply PL_null; exact H|]).
  - (* primitive *)
    destruct (wf_prim_inv _ _ NN W) as (cls & tok & -> & W1 & W2 & W3 & W4).
    rewrite fv_prim. unfold fin.
    assert (NC : (cls =? ID_NULL) = false) by (apply N.eqb_neq; exact W1).
    assert (CO : cast_ok cls c = true).
    { rewrite (cast_ok_under cls c (TPrim p)); [exact W3 | exact U]. }
    assert (Plain : forall a, conv_val a (ZImplied (APrim cls tok)) (Some c) = Some (c, VPrim cls tok, a)).
    { intros a. cbn [conv_val]. rewrite conv_any_prim_cast, CO, NC. reflexivity. }
    destruct dec; [|fin_plain Plain].
    destruct pk; [rewrite decorate_known; fin_plain Plain|].
    destruct (H eq_refl) as (_ & H2). destruct (H2 eq_refl) as (-> & _).
    unfold decorate. cbn [orb negb andb name_of implied].
    destruct (implied_prim p) eqn:Ip.
    + fin_plain Plain.
    + cbn [selfdesc implied]. rewrite Ip. cbn [orb andb fmt_type name_of].
      eexists _, _; split; [reflexivity|]. split; [discriminate|]. intros a.
      cbn [wrap]. rewrite conv_val_cast_implied. cbn [conv_type type_check ty_eqb].
      rewrite N.eqb_refl, conv_any_prim_cast, W3, NC. reflexivity.
  - (* record *)
    destruct (wf_rec_inv _ _ NN W) as (vs & ->).
    rewrite fv_rec. rewrite orb_false_r.
    destruct (PL_fields P fs IH vs st pk W) as (zs & Fs & L & Cs).
    { intros E. destruct (H E) as (A & _). exact A. }
    rewrite Fs. unfold fin.
    assert (Plain : forall a, conv_val a (ZImplied (ARec zs)) (Some c) = Some (c, VRec vs, a)).
    { intros a. cbn [conv_val]. rewrite (conv_any_rec_cast a zs c fs U), L, Nat.eqb_refl, Cs. reflexivity. }
    destruct dec; [rewrite decorate_rec_false|]; fin_plain Plain.
  - (* array *)
    destruct (wf_arr_inv _ _ NN W) as (vs & ->).
    destruct vs as [|x xr].
    + rewrite fv_arr_nil. unfold fin.
      assert (Plain : forall a, conv_val a (ZImplied (AArr [])) (Some c) = Some (c, VArr [], a)).
      { intros a. cbn [conv_val]. rewrite (conv_any_arr_cast a [] c u U). reflexivity. }
      destruct dec; [|fin_plain Plain].
      destruct pk; [rewrite decorate_known; fin_plain Plain|].
      destruct (H eq_refl) as (_ & H2). destruct (H2 eq_refl) as (-> & A).
      rewrite (decorate_null_unbound P st (TArr u) eq_refl eq_refl).
      destruct (fmt_type_anon P (TArr u) st A) as (y & F & C). rewrite F.
      eexists _, _; split; [reflexivity|]. split; [discriminate|]. intros a. cbn [wrap].
      rewrite conv_val_cast_implied, C. unfold type_check. rewrite ty_eqb_refl.
      rewrite (conv_any_arr_cast a [] (TArr u) u eq_refl). reflexivity.
    + rewrite fv_arr_cons. rewrite orb_false_r.
      destruct (PL_elems P u IH (x :: xr) st pk W) as (zs & Fs & Cs).
      { intros E. destruct (H E) as (A & _). exact A. }
      rewrite Fs. unfold fin.
      assert (Plain : forall a, conv_val a (ZImplied (AArr zs)) (Some c) = Some (c, VArr (x :: xr), a)).
      { intros a. cbn [conv_val]. rewrite (conv_any_arr_cast a zs c u U), Cs. reflexivity. }
      destruct dec; [rewrite decorate_arr_false|]; fin_plain Plain.
  - (* named *)
    rewrite (fv_named P st n u v pk false dec NN). rewrite (wf_named n u v NN) in W.
    destruct (IH v st (pk || has_name P st (TNamed n u)) false c W U) as (z & nl & F & X & C).
    { intros E. apply orb_false_iff in E. destruct E as [E _]. destruct (H E) as (A & _).
      split; [exact A | discriminate]. }
    rewrite F. unfold fin. destruct dec; [|eexists _, _; split; [reflexivity | split; [intros _; apply X; reflexivity | exact C]]].
    destruct pk; [rewrite decorate_known; eexists _, _; split; [reflexivity | split; [discriminate | exact C]]|].
    destruct (H eq_refl) as (_ & H2). destruct (H2 eq_refl) as (_ & A). discriminate.
Qed.

(* ---- formatType is read back by convertType, typedefs included ----
   formatType binds a name before it formats the definition (pre-order), the
   analyzer after it converted it (post-order): [pend] are the names whose
   binding is pending on the analyzer's side. *)
Definition InvEx (P : persist) (pend : list name) (st : fstate) (a : astate) : Prop :=
  (forall m T, ~ In m pend -> assoc m (tdefs st) = Some T -> assoc m a = Some T) /\
  (persist_enabled P = true -> forall m T, ~ In m pend -> assoc m (perm st) = Some T -> assoc m a = Some T) /\
  perm_ok P st.

Lemma InvEx_nil P st a : InvEx P [] st a <-> Inv P st a.
Proof.
  unfold InvEx, Inv, submap. split; intros (A & B & C).
  - split; [|split; [|exact C]].
    + intros m T. apply A. intros [].
    + intros E m T. apply (B E). intros [].
  - split; [|split; [|exact C]].
    + intros m T _. apply A.
    + intros E m T _. apply (B E).
Qed.

Lemma perm_ok_save P st n t : perm_ok P st -> perm_ok P (save_type P st n t).
Proof.
  intros I3 m u. rewrite save_perm.
  destruct (persist_enabled P && persist_match P n) eqn:PM; [|apply I3].
  destruct (name_eqb m n) eqn:E; [|apply I3].
  apply name_eqb_eq in E. subst m. intros _. exact PM.
Qed.

Lemma name_of_sound_ex P pend st a n u :
  InvEx P pend st a -> ~ In n pend -> name_of P st (TNamed n u) = Some n -> assoc n a = Some (TNamed n u).
Proof.
  intros (I1 & I2 & _) NP H. simpl in H.
  destruct (bound_to n (TNamed n u) (tdefs st)) eqn:B1.
  - apply (I1 _ _ NP). apply bound_to_assoc. exact B1.
  - destruct (persist_enabled P) eqn:EP; simpl in H; [|discriminate].
    destruct (bound_to n (TNamed n u) (perm st)) eqn:B2; [|discriminate].
    apply (I2 eq_refl _ _ NP). apply bound_to_assoc. exact B2.
Qed.

Definition FTstmt (P : persist) (t : ty) : Prop :=
  forall pend st a,
    good t -> (forall m, In m pend -> ~ In m (names_of t)) -> InvEx P pend st a ->
    exists y st' a', fmt_type P st t = (y, st') /\ conv_type a y = Some (t, a') /\
                     InvEx P pend st' a' /\ frame (names_of t) st st'.

Lemma FT_fields P : forall fs,
  Forall (fun nt => FTstmt P (snd nt)) fs ->
  forall pend st a,
    good (TRec fs) -> (forall m, In m pend -> ~ In m (names_of (TRec fs))) -> InvEx P pend st a ->
    exists ys st' a', fmt_type_fields P fs st = (ys, st') /\ conv_type_fields ys a = Some (fs, a') /\
                      InvEx P pend st' a' /\ frame (names_of (TRec fs)) st st'.
Proof.
  induction 1 as [| [n ft] fr H _ IHfr]; intros pend st a G D I.
  - exists [], st, a. split; [reflexivity | split; [reflexivity | split; [exact I | apply frame_refl]]].
  - rewrite good_rec in G. destruct G as [G1 G2]. simpl in H.
    assert (D1 : forall m, In m pend -> ~ In m (names_of ft)).
    { intros m Hm X. apply (D m Hm). rewrite names_of_rec. apply in_or_app. left. exact X. }
    assert (D2 : forall m, In m pend -> ~ In m (names_of (TRec fr))).
    { intros m Hm X. apply (D m Hm). rewrite names_of_rec. apply in_or_app. right. exact X. }
    destruct (H pend st a G1 D1 I) as (y & st1 & a1 & F & C & I1 & Fr1).
    destruct (IHfr pend st1 a1 G2 D2 I1) as (ys & st2 & a2 & Fs & Cs & I2 & Fr2).
    exists ((n, y) :: ys), st2, a2. split; [|split; [|split]].
    + cbn -[fmt_type]. rewrite F. fold (fmt_type_fields P). rewrite Fs. reflexivity.
    + cbn -[conv_type]. rewrite C. fold conv_type_fields. rewrite Cs. reflexivity.
    + exact I2.
    + rewrite names_of_rec. eapply frame_trans; eassumption.
Qed.

Lemma FTg P : forall t, FTstmt P t.
Proof.
  induction t as [p | fs IH | u IH | n u IH] using ty_ind'; intros pend st a G D I.
  - exists (YPrim p), st, a. split; [reflexivity | split; [reflexivity | split; [exact I | apply frame_refl]]].
  - destruct (FT_fields P fs IH pend st a G D I) as (ys & st' & a' & Fs & Cs & I' & Fr).
    exists (YRec ys), st', a'. split; [|split; [|split]]; auto.
    + rewrite fmt_type_rec, Fs. reflexivity.
    + rewrite conv_type_rec, Cs. reflexivity.
  - simpl in G. destruct (IH pend st a G D I) as (y & st' & a' & F & C & I' & Fr).
    exists (YArr y), st', a'. split; [|split; [|split]]; auto.
    + cbn [fmt_type name_of]. rewrite F. reflexivity.
    + cbn [conv_type]. rewrite C. reflexivity.
  - destruct G as (NN & NI & _ & G).
    assert (NP : ~ In n pend).
    { intros X. apply (D n X). left. reflexivity. }
    rewrite fmt_type_named.
    destruct (name_of P st (TNamed n u)) as [m|] eqn:NO.
    + destruct (name_of_named _ _ _ _ NO) as (u' & E). inversion E; subst m u'.
      exists (YName n), st, a. split; [reflexivity|]. split; [|split; [exact I | apply frame_refl]].
      cbn [conv_type]. rewrite (name_of_sound_ex P pend st a n u I NP NO). reflexivity.
    + set (t := TNamed n u) in *. set (st1 := save_type P st n t).
      assert (I1 : InvEx P (n :: pend) st1 a).
      { destruct I as (A & B & C). split; [|split].
        - intros m T Hm. unfold st1. rewrite save_tdefs.
          rewrite name_eqb_neq; [apply A; intros X; apply Hm; right; exact X|].
          intros ->. apply Hm. left. reflexivity.
        - intros EP m T Hm. unfold st1. rewrite save_perm.
          assert (NE : name_eqb m n = false).
          { apply name_eqb_neq. intros ->. apply Hm. left. reflexivity. }
          rewrite NE. destruct (persist_enabled P && persist_match P n);
            apply (B EP); intros X; apply Hm; right; exact X.
        - apply perm_ok_save. exact C. }
      assert (D1 : forall m, In m (n :: pend) -> ~ In m (names_of u)).
      { intros m [<- | Hm]; [exact NI|]. intros X. apply (D m Hm). right. exact X. }
      destruct (IH (n :: pend) st1 a G D1 I1) as (y & st2 & a1 & F & C & I2 & Fr).
      exists (YDef n y), st2, ((n, t) :: a1). split; [|split; [|split]].
      * rewrite F. reflexivity.
      * cbn [conv_type]. rewrite C, NN. reflexivity.
      * destruct (Fr n NI) as [Ft Fp]. destruct I2 as (A & B & C2). split; [|split]; [| |exact C2].
        -- intros m T Hm HT. rewrite assoc_cons. destruct (name_eqb m n) eqn:E.
           ++ apply name_eqb_eq in E. subst m. rewrite Ft in HT. unfold st1 in HT.
              rewrite save_tdefs, name_eqb_refl in HT. exact HT.
           ++ apply (A m T); [|exact HT]. intros [X | X]; [|contradiction].
              subst m. rewrite name_eqb_refl in E. discriminate.
        -- intros EP m T Hm HT. rewrite assoc_cons. destruct (name_eqb m n) eqn:E.
           ++ apply name_eqb_eq in E. subst m. rewrite Fp in HT. unfold st1 in HT.
              rewrite save_perm, name_eqb_refl in HT.
              destruct (persist_enabled P && persist_match P n) eqn:PM; [exact HT|].
              destruct I as (_ & _ & PO). rewrite (PO _ _ HT) in PM. discriminate.
           ++ apply (B EP m T); [|exact HT]. intros [X | X]; [|contradiction].
              subst m. rewrite name_eqb_refl in E. discriminate.
      * change (names_of t) with ([n] ++ names_of u).
        eapply frame_trans; [apply frame_save | exact Fr].
Qed.

Lemma FT P t st a : good t -> Inv P st a ->
  exists y st' a', fmt_type P st t = (y, st') /\ conv_type a y = Some (t, a') /\
                   Inv P st' a' /\ frame (names_of t) st st'.
Proof.
  intros G I. destruct (FTg P t [] st a G) as (y & st' & a' & F & C & I' & Fr).
  - intros m [].
  - apply InvEx_nil. exact I.
  - exists y, st', a'. split; [exact F | split; [exact C | split; [apply InvEx_nil; exact I' | exact Fr]]].
Qed.

(* ---- values analysed without any enclosing type: the decorators must suffice ---- *)
Lemma implied_rec n ft fr : implied (TRec ((n, ft) :: fr)) = implied ft && implied (TRec fr).
Proof. reflexivity. Qed.

Lemma elem_type_all u ts : Forall (fun t => t = u) ts -> ts <> [] -> elem_type ts = Some u.
Proof.
  intros H. induction H as [| t r E _ IH]; intros NE; [congruence|].
  subst t. destruct r as [|t' r'].
  - cbn [elem_type]. destruct (ty_eqb u (TPrim ID_NULL)) eqn:E1.
    + apply ty_eqb_prim in E1. congruence.
    + rewrite (ty_eqb_refl (TPrim ID_NULL)). reflexivity.
  - cbn [elem_type] in *. rewrite IH by congruence.
    destruct (ty_eqb u (TPrim ID_NULL)) eqn:E1; [reflexivity|].
    rewrite ty_eqb_refl. reflexivity.
Qed.

Lemma fv_dec P st t v pk pi : v <> VNull ->
  fv P st t v pk pi true = fin P t pk true (fv P st t v pk pi false).
Proof.
  intros NN. destruct t as [p | fs | u | n u].
  - destruct v; [congruence | reflexivity ..].
  - destruct v as [| cls tok | vs | vs]; [congruence | reflexivity | | reflexivity].
    rewrite !fv_rec. unfold fin.
    destruct (fv_fields P (pk || false) pi fs vs st) as [zs st1]. reflexivity.
  - destruct v as [| cls tok | vs | vs]; [congruence | reflexivity | reflexivity |].
    destruct vs as [|x xr]; [reflexivity|].
    rewrite !fv_arr_cons. unfold fin.
    destruct (fv_elems P (pk || false) pi u (x :: xr) st) as [zs st1]. reflexivity.
  - rewrite !(fv_named P st n u v pk pi _ NN). unfold fin.
    destruct (fv P st u v (pk || has_name P st (TNamed n u)) pi false) as [[z nl] st1]. reflexivity.
Qed.

Definition Ustmt (P : persist) (t : ty) : Prop :=
  forall v st a pi, wf t v -> good t -> implied_ok pi t -> Inv P st a ->
    exists z nl st' a', fv P st t v false pi true = (z, nl, st') /\
                        conv_val a z None = Some (t, v, a') /\ Inv P st' a' /\
                        frame (names_of t) st st'.

Definition U'stmt (P : persist) (t : ty) : Prop :=
  is_named t = false ->
  forall v st a pi, v <> VNull -> wf t v -> good t -> implied_ok pi t -> Inv P st a ->
    exists x nl st', fv P st t v false pi false = (ZImplied x, nl, st') /\
                     frame (names_of t) st st' /\
                     (nl = true -> st' = st /\ v = VArr [] /\ x = AArr [] /\ exists u, t = TArr u) /\
                     (nl = false -> selfdesc t = true ->
                      exists a', conv_any a x None = Some (t, v, a') /\ Inv P st' a').

Lemma decorate_unbound_cond P st t null :
  ty_eqb t (TPrim ID_NULL) = false -> implied t = false \/ null = true ->
  decorate P st t false null =
  match name_of P st t with
  | Some n => (DCast (YName n), st)
  | None =>
    if selfdesc t && negb null then
      match t with
      | TNamed n _ => (DDef n, save_type P st n t)
      | _ => (DNone, st)
      end
    else let '(y, st') := fmt_type P st t in (DCast y, st')
  end.
Proof.
  intros E H. unfold decorate. rewrite E. cbn [orb negb].
  replace (negb (null && true) && implied t) with false; [reflexivity|].
  destruct H as [-> | ->]; [rewrite andb_false_r | rewrite andb_true_r]; reflexivity.
Qed.

Lemma U_null P t st a pi : good t -> Inv P st a ->
  exists z nl st' a', fv P st t VNull false pi true = (z, nl, st') /\
                      conv_val a z None = Some (t, VNull, a') /\ Inv P st' a' /\
                      frame (names_of t) st st'.
Proof.
  intros G I. rewrite fv_null.
  replace (if pi then false else false) with false by (destruct pi; reflexivity).
  destruct (ty_eqb t (TPrim ID_NULL)) eqn:E.
  - apply ty_eqb_prim in E. subst t. rewrite decorate_null_nulltype.
    exists znull, true, st, a. split; [reflexivity|]. split; [reflexivity|]. split; [exact I | apply frame_refl].
  - rewrite (decorate_unbound_cond P st t true E (or_intror eq_refl)).
    destruct (name_of P st t) as [n|] eqn:NO.
    + exists (ZCast znull (YName n)), true, st, a. split; [reflexivity|].
      split; [|split; [exact I | apply frame_refl]].
      unfold znull. rewrite conv_val_cast_implied. cbn [conv_type].
      rewrite (name_of_sound P st a t n I NO). reflexivity.
    + rewrite andb_false_r.
      destruct (FT P t st a G I) as (y & st' & a' & F & C & I' & Fr). rewrite F.
      exists (ZCast znull y), true, st', a'. split; [reflexivity|].
      split; [|split; [exact I' | exact Fr]].
      unfold znull. rewrite conv_val_cast_implied, C. reflexivity.
Qed.

Lemma U_fields P : forall fs,
  Forall (fun nt => Ustmt P (snd nt) /\ U'stmt P (snd nt)) fs ->
  forall vs st a pi, wf (TRec fs) (VRec vs) -> good (TRec fs) -> implied_ok pi (TRec fs) -> Inv P st a ->
  exists zs st' a', fv_fields P false pi fs vs st = (zs, st') /\
                    conv_fields_infer zs a = Some (fs, vs, a') /\ Inv P st' a' /\
                    frame (names_of (TRec fs)) st st'.
Proof.
  induction 1 as [| [n ft] fr [H _] _ IHfr]; intros vs st a pi W G IO I.
  - destruct vs; [|simpl in W; contradiction].
    exists [], st, a. split; [reflexivity | split; [reflexivity | split; [exact I | apply frame_refl]]].
  - destruct vs as [|x xr]; [simpl in W; contradiction|].
    rewrite wf_rec_cons in W. destruct W as [W1 W2].
    rewrite good_rec in G. destruct G as [G1 G2]. simpl in H.
    assert (IO1 : implied_ok pi ft).
    { intros E. specialize (IO E). rewrite implied_rec in IO. apply andb_true_iff in IO. tauto. }
    assert (IO2 : implied_ok pi (TRec fr)).
    { intros E. specialize (IO E). rewrite implied_rec in IO. apply andb_true_iff in IO. tauto. }
    destruct (H x st a pi W1 G1 IO1 I) as (z & nl & st1 & a1 & F & C & I1 & Fr1).
    destruct (IHfr xr st1 a1 pi W2 G2 IO2 I1) as (zs & st2 & a2 & Fs & Cs & I2 & Fr2).
    exists ((n, z) :: zs), st2, a2. split; [|split; [|split]].
    + rewrite fv_fields_cons, F, Fs. reflexivity.
    + cbn -[conv_val]. rewrite C. fold conv_fields_infer. rewrite Cs. reflexivity.
    + exact I2.
    + rewrite names_of_rec. eapply frame_trans; eassumption.
Qed.

Lemma U_elems P u : Ustmt P u ->
  forall vs st a pi, wf (TArr u) (VArr vs) -> good u -> implied_ok pi u -> Inv P st a ->
  exists zs st' a', fv_elems P false pi u vs st = (zs, st') /\
                    conv_elems None zs a = Some (map (fun _ => u) vs, vs, a') /\ Inv P st' a' /\
                    frame (names_of u) st st'.
Proof.
  intros H. induction vs as [|x xr IHx]; intros st a pi W G IO I.
  - exists [], st, a. split; [reflexivity | split; [reflexivity | split; [exact I | apply frame_refl]]].
  - rewrite wf_arr_cons in W. destruct W as [W1 W2].
    destruct (H x st a pi W1 G IO I) as (z & nl & st1 & a1 & F & C & I1 & Fr1).
    destruct (IHx st1 a1 pi W2 G IO I1) as (zs & st2 & a2 & Fs & Cs & I2 & Fr2).
    exists (z :: zs), st2, a2. split; [|split; [|split]].
    + rewrite fv_elems_cons, F, Fs. reflexivity.
    + cbn -[conv_val]. rewrite C. fold (conv_elems None). rewrite Cs. reflexivity.
    + exact I2.
    + apply (frame_weaken (names_of u ++ names_of u)); [|eapply frame_trans; eassumption].
      intros m Hm. apply in_app_or in Hm. tauto.
Qed.

Lemma selfdesc_rec fs : selfdesc (TRec fs) = true.
Proof. cbn [selfdesc]. apply orb_true_r. Qed.

Lemma selfdesc_arr u : selfdesc (TArr u) = true.
Proof. cbn [selfdesc]. apply orb_true_r. Qed.

Lemma selfdesc_named_nonnamed n u : is_named u = false -> selfdesc (TNamed n u) = selfdesc u.
Proof. destruct u; intros H; try discriminate; reflexivity. Qed.

Lemma selfdesc_named_named n m w : selfdesc (TNamed n (TNamed m w)) = false.
Proof. reflexivity. Qed.

Lemma selfdesc_named_false n u :
  selfdesc (TNamed n u) = false -> is_named u = false -> exists p, u = TPrim p.
Proof.
  intros H N. rewrite (selfdesc_named_nonnamed n u N) in H.
  destruct u as [p | fs | w | m w]; eauto.
  - rewrite selfdesc_rec in H. discriminate.
  - rewrite selfdesc_arr in H. discriminate.
  - discriminate.
Qed.

Lemma selfdesc_named_true n u :
  selfdesc (TNamed n u) = true -> is_named u = false /\ selfdesc u = true.
Proof.
  destruct u as [p | fs | w | m w]; intros H.
  - split; [reflexivity | exact H].
  - split; [reflexivity | apply selfdesc_rec].
  - split; [reflexivity | apply selfdesc_arr].
  - discriminate.
Qed.

Lemma UL P : forall t, Ustmt P t /\ U'stmt P t.
Proof.
  induction t as [p | fs IH | u IH | n u IH] using ty_ind'.
  - (* primitive *)
    assert (U' : U'stmt P (TPrim p)).
    { intros _ v st a pi NN W G IO I.
      destruct (wf_prim_inv _ _ NN W) as (cls & tok & -> & W1 & W2 & W3 & W4).
      rewrite fv_prim. unfold fin.
      exists (APrim cls tok), false, st. split; [reflexivity|]. split; [apply frame_refl|].
      split; [discriminate|]. intros _ SD.
      cbn [selfdesc implied] in SD. rewrite orb_false_r in SD. rewrite (W4 SD).
      exists a. split; [|exact I]. cbn [conv_any].
      replace (p =? ID_NULL) with false by (symmetry; apply N.eqb_neq; exact W2).
      rewrite <- (W4 SD). reflexivity. }
    split; [|exact U'].
    intros v st a pi W G IO I.
    destruct (val_eq_null v) as [-> | NN]; [apply U_null; assumption|].
    destruct (wf_prim_inv _ _ NN W) as (cls & tok & -> & W1 & W2 & W3 & W4).
    rewrite (fv_dec P st (TPrim p) _ false pi NN), fv_prim. unfold fin.
    assert (NC : (cls =? ID_NULL) = false) by (apply N.eqb_neq; exact W1).
    unfold decorate. cbn [orb negb andb name_of implied ty_eqb].
    destruct (implied_prim p) eqn:Ip.
    + replace (p =? ID_NULL) with false by (symmetry; apply N.eqb_neq; exact W2).
      cbn [negb andb].
      exists (ZImplied (APrim cls tok)), false, st, a. split; [reflexivity|].
      split; [|split; [exact I | apply frame_refl]].
      cbn [conv_val conv_any]. rewrite NC, (W4 eq_refl). reflexivity.
    + cbn [selfdesc implied]. rewrite Ip. cbn [orb andb fmt_type name_of].
      exists (ZCast (ZImplied (APrim cls tok)) (YPrim p)), false, st, a. split; [reflexivity|].
      split; [|split; [exact I | apply frame_refl]].
      rewrite conv_val_cast_implied. cbn [conv_type type_check].
      rewrite conv_any_prim_cast, W3, NC. reflexivity.
  - (* record *)
    assert (U' : U'stmt P (TRec fs)).
    { intros _ v st a pi NN W G IO I.
      destruct (wf_rec_inv _ _ NN W) as (vs & ->).
      rewrite fv_rec. cbn [orb].
      destruct (U_fields P fs IH vs st a pi W G IO I) as (zs & st' & a' & Fs & Cs & I' & Fr).
      rewrite Fs. unfold fin.
      exists (ARec zs), false, st'. split; [reflexivity|]. split; [exact Fr|].
      split; [discriminate|]. intros _ _. exists a'. split; [|exact I'].
      rewrite conv_any_rec_infer, Cs. reflexivity. }
    split; [|exact U'].
    intros v st a pi W G IO I.
    destruct (val_eq_null v) as [-> | NN]; [apply U_null; assumption|].
    rewrite (fv_dec P st (TRec fs) v false pi NN).
    destruct (U' eq_refl v st a pi NN W G IO I) as (x & nl & st' & F & Fr & N1 & N2).
    rewrite F. unfold fin. destruct nl.
    + destruct (N1 eq_refl) as (_ & _ & _ & (w & E)). discriminate.
    + rewrite decorate_rec_false.
      destruct (N2 eq_refl (selfdesc_rec fs)) as (a' & C & I').
      exists (ZImplied x), false, st', a'. split; [reflexivity|]. split; [exact C|]. split; assumption.
  - (* array *)
    destruct IH as [IHU _].
    assert (U' : U'stmt P (TArr u)).
    { intros _ v st a pi NN W G IO I.
      destruct (wf_arr_inv _ _ NN W) as (vs & ->).
      destruct vs as [|x xr].
      - rewrite fv_arr_nil. unfold fin.
        exists (AArr []), true, st. split; [reflexivity|]. split; [apply frame_refl|].
        split; [|discriminate]. intros _. repeat split; eauto.
      - rewrite fv_arr_cons. cbn [orb].
        destruct (U_elems P u IHU (x :: xr) st a pi W G IO I) as (zs & st' & a' & Fs & Cs & I' & Fr).
        rewrite Fs. unfold fin.
        exists (AArr zs), false, st'. split; [reflexivity|]. split; [exact Fr|].
        split; [discriminate|]. intros _ _. exists a'. split; [|exact I'].
        rewrite conv_any_arr_infer, Cs.
        rewrite (elem_type_all u); [reflexivity | | simpl; discriminate].
        apply Forall_forall. intros t Hin. apply in_map_iff in Hin. destruct Hin as (? & E & _). auto. }
    split; [|exact U'].
    intros v st a pi W G IO I.
    destruct (val_eq_null v) as [-> | NN]; [apply U_null; assumption|].
    rewrite (fv_dec P st (TArr u) v false pi NN).
    destruct (U' eq_refl v st a pi NN W G IO I) as (x & nl & st' & F & Fr & N1 & N2).
    rewrite F. unfold fin. destruct nl.
    + destruct (N1 eq_refl) as (-> & -> & -> & _).
      rewrite (decorate_null_unbound P st (TArr u) eq_refl eq_refl).
      destruct (FT P (TArr u) st a G I) as (y & st' & a' & Ft & C & I' & Fr').
      rewrite Ft. exists (ZCast (ZImplied (AArr [])) y), true, st', a'. split; [reflexivity|].
      split; [|split; assumption].
      cbn [wrap]. rewrite conv_val_cast_implied, C. cbn [type_check].
      rewrite (conv_any_arr_cast a' [] (TArr u) u eq_refl). reflexivity.
    + rewrite decorate_arr_false.
      destruct (N2 eq_refl (selfdesc_arr u)) as (a' & C & I').
      exists (ZImplied x), false, st', a'. split; [reflexivity|]. split; [exact C|]. split; assumption.
  - (* named *)
    destruct IH as [IHU IHU'].
    split; [|intros H; discriminate].
    intros v st a pi W G IO I.
    destruct (val_eq_null v) as [-> | NN]; [apply U_null; assumption|].
    assert (PI : pi = false).
    { destruct pi; [|reflexivity]. specialize (IO eq_refl). discriminate. }
    subst pi.
    destruct G as (NN' & NI & NB & G).
    rewrite (wf_named n u v NN) in W.
    rewrite (fv_named P st n u v false false true NN). cbn [orb].
    set (t := TNamed n u) in *.
    assert (TE : ty_eqb t (TPrim ID_NULL) = false) by reflexivity.
    unfold has_name. destruct (name_of P st t) as [m|] eqn:NO.
    + (* the name is bound to this very type: the value is written bare and (name) follows *)
      destruct (name_of_named _ _ _ _ NO) as (u' & E). inversion E; subst m u'. cbn [is_some].
      destruct (PL P u v st true false t W eq_refl) as (z & nl & F & X & C); [discriminate|].
      destruct (X eq_refl) as (x & ->).
      rewrite F. unfold fin.
      rewrite (decorate_unbound_cond P st t nl TE (or_introl eq_refl)), NO.
      exists (ZCast (ZImplied x) (YName n)), nl, st, a. split; [reflexivity|].
      split; [|split; [exact I | apply frame_refl]].
      rewrite conv_val_cast_implied. cbn [conv_type].
      rewrite (name_of_sound P st a t n I NO). cbn [type_check].
      exact (C a).
    + cbn [is_some].
      destruct (selfdesc t) eqn:SD.
      * (* self-describing: the value, decorated inside as needed, then (=name) *)
        destruct (selfdesc_named_true n u SD) as (NNu & SDu).
        destruct (IHU' NNu v st a false NN W G (fun e => False_ind _ (Bool.diff_false_true e)) I)
          as (x & nl & st1 & F & Fr & N1 & N2).
        rewrite F. unfold fin.
        assert (NO1 : name_of P st1 t = None).
        { unfold t. rewrite (name_of_frame P (names_of u) st st1 n u Fr NI). exact NO. }
        rewrite (decorate_unbound_cond P st1 t nl TE (or_introl eq_refl)), NO1, SD.
        destruct nl.
        -- destruct (N1 eq_refl) as (-> & -> & -> & (w & Eu)).
           cbn [negb andb].
           destruct (FT P t st a (conj NN' (conj NI (conj NB G))) I) as (y & st' & a' & Ft & C & I' & Fr').
           rewrite Ft. exists (ZCast (ZImplied (AArr [])) y), true, st', a'. split; [reflexivity|].
           split; [|split; assumption].
           cbn [wrap]. rewrite conv_val_cast_implied, C. cbn [type_check].
           rewrite (conv_any_arr_cast a' [] t w); [reflexivity|]. unfold t. cbn [under]. rewrite Eu. reflexivity.
        -- cbn [negb andb]. unfold t at 1.
           destruct (N2 eq_refl SDu) as (a1 & C & I1).
           exists (ZDef x n), false, (save_type P st1 n t), ((n, t) :: a1). split; [reflexivity|].
           split; [|split].
           ++ rewrite conv_val_def, C. cbn [restates]. rewrite NN'. reflexivity.
           ++ apply Inv_save. exact I1.
           ++ apply (frame_weaken (names_of u ++ [n])).
              { intros m Hm. apply in_app_or in Hm. destruct Hm as [Hm | [<- | []]]; [right; exact Hm | left; reflexivity]. }
              eapply frame_trans; [exact Fr | apply frame_save].
      * (* not self-describing: the bare value, then the full type *)
        assert (AU : names_of (under u) = []).
        { destruct (is_named u) eqn:Nu; [apply NB; reflexivity|].
          destruct (selfdesc_named_false n u SD Nu) as (p & ->). reflexivity. }
        destruct (PL P u v st false false t W eq_refl) as (z & nl & F & X & C).
        { intros _. split; [exact AU | discriminate]. }
        destruct (X eq_refl) as (x & ->).
        rewrite F. unfold fin.
        rewrite (decorate_unbound_cond P st t nl TE (or_introl eq_refl)), NO, SD. cbn [andb].
        destruct (FT P t st a (conj NN' (conj NI (conj NB G))) I) as (y & st' & a' & Ft & Cy & I' & Fr').
        rewrite Ft. exists (ZCast (ZImplied x) y), nl, st', a'. split; [reflexivity|].
        split; [|split; assumption].
        rewrite conv_val_cast_implied, Cy. cbn [type_check]. exact (C a').
Qed.

(* ---- a value at the top of a text; sequences ---- *)
Lemma fv_top_known P st t v pi :
  fv P st t v (has_name P st t) pi false = fv P st t v false pi false.
Proof.
  destruct (val_eq_null v) as [-> | NN]; [rewrite !fv_null; reflexivity|].
  destruct t as [p | fs | u | n u].
  - reflexivity.
  - reflexivity.
  - reflexivity.
  - rewrite !(fv_named P st n u v _ pi false NN). rewrite orb_diag. reflexivity.
Qed.

Theorem top_roundtrip P : forall t v st a,
  wf t v -> good t -> Inv P st a ->
  exists z st' a', fmt_top P st t v = (z, st') /\ conv_val a z None = Some (t, v, a') /\ Inv P st' a'.
Proof.
  intros t v st a W G I.
  destruct (UL P t) as [U _].
  destruct (U v st a (implied t) W G (fun e => e) I) as (z & nl & st' & a' & F & C & I' & _).
  unfold fmt_top. rewrite fv_top_known.
  destruct (val_eq_null v) as [-> | NN].
  - rewrite fv_null in *. cbn [is_null negb andb].
    replace (if implied t then false else false) with false in F by (destruct (implied t); reflexivity).
    destruct (decorate P st t false true) as [d st2]. inversion F; subst.
    exists (wrap znull d), st', a'. auto.
  - rewrite (fv_dec P st t v false (implied t) NN) in F. unfold fin in F.
    destruct (fv P st t v false (implied t) false) as [[z0 nl0] st1] eqn:F0.
    replace (negb (is_null v)) with true by (destruct v; [congruence | reflexivity ..]).
    cbn [andb].
    destruct (empty_implies t) eqn:EI; [|destruct (decorate P st1 t false nl0) as [d st2]; inversion F; subst; eexists _, _, _; split; [reflexivity | split; eassumption]].
    (* the container of null: written bare, read as the container of null *)
    destruct t as [p | fs | u | n u]; try discriminate. cbn [empty_implies] in EI.
    apply ty_eqb_prim in EI. subst u.
    destruct nl0.
    + (* empty *)
      destruct (wf_arr_inv _ _ NN W) as (vs & ->).
      destruct vs as [|x xr]; [|rewrite fv_arr_cons in F0; unfold fin in F0;
        destruct (fv_elems P (false || false) (implied (TArr (TPrim ID_NULL))) (TPrim ID_NULL) (x :: xr) st); discriminate].
      rewrite fv_arr_nil in F0. unfold fin in F0. inversion F0; subst.
      rewrite decorate_arr_false.
      exists (ZImplied (AArr [])), st1, a. split; [reflexivity|]. split; [reflexivity | exact I].
    + destruct (decorate P st1 (TArr (TPrim ID_NULL)) false false) as [d st2]. inversion F; subst. eexists _, _, _; split; [reflexivity | split; eassumption].
Qed.

Theorem stream_roundtrip P reset : forall l st a,
  Forall (fun tv => wf (fst tv) (snd tv) /\ good (fst tv)) l -> Inv P st a ->
  conv_stream a (fmt_stream P reset st l) = map Some l.
Proof.
  induction l as [| [t v] r IH]; intros st a H I; [reflexivity|].
  inversion H as [| ? ? (W & G) Hr]; subst. simpl in W, G.
  assert (I0 : Inv P (if reset then mkF [] (perm st) else st) a).
  { destruct reset; [|exact I]. destruct I as (_ & I2 & I3). split; [|split].
    - intros n u X. discriminate.
    - exact I2.
    - exact I3. }
  destruct (top_roundtrip P t v _ a W G I0) as (z & st' & a' & F & C & I').
  cbn [fmt_stream]. rewrite F. cbn [conv_stream]. rewrite C. cbn [map]. f_equal.
  apply IH; assumption.
Qed.

Lemma Inv0 P : Inv P fstate0 [].
Proof.
  split; [|split].
  - intros n t X. discriminate.
  - intros _ n t X. discriminate.
  - intros n t X. discriminate.
Qed.

(* ---- statements used by Props/C02.v ---- *)
Theorem decorator_sufficient P : forall t v st a pi,
  wf t v -> good t -> implied_ok pi t -> Inv P st a ->
  exists z nl st' a', fv P st t v false pi true = (z, nl, st') /\
                      conv_val a z None = Some (t, v, a') /\ Inv P st' a' /\
                      frame (names_of t) st st'.
Proof. intros t. exact (proj1 (UL P t)). Qed.

Theorem known_type_sufficient P : forall t v st c,
  wf t v -> under c = under t ->
  exists z nl, fv P st t v true false true = (z, nl, st) /\
               forall a, conv_val a z (Some c) = Some (c, v, a).
Proof.
  intros t v st c W U.
  destruct (PL P t v st true true c W U) as (z & nl & F & _ & C); [discriminate|].
  exists z, nl. split; assumption.
Qed.

Theorem format_type_roundtrip P : forall t st a,
  good t -> Inv P st a ->
  exists y st' a', fmt_type P st t = (y, st') /\ conv_type a y = Some (t, a') /\
                   Inv P st' a' /\ frame (names_of t) st st'.
Proof. intros. apply FT; assumption. Qed.

Theorem stream_roundtrip0 P reset : forall l,
  Forall (fun tv => wf (fst tv) (snd tv) /\ good (fst tv)) l ->
  conv_stream [] (fmt_stream P reset fstate0 l) = map Some l.
Proof. intros l H. apply stream_roundtrip; [exact H | apply Inv0]. Qed.

(* ---- witnesses: where the faithful model still does not round-trip ---- *)
Definition u8 : ty := TPrim 0.
Definition tok1 : val := VPrim 9 [49].
Definition nm (s : string) : name := s2l s.

(* outer=bar={f:foo={a:uint8}}: the trailing decorator (outer=bar={f:foo})
   refers to foo, which is first defined inside the value (F-C02-8) *)
Theorem named_of_named_inner_named_refuted :
  exists t v, wf t v /\ conv_val [] (fst (fmt_top PNone fstate0 t v)) None = None.
Proof.
  exists (TNamed (nm "outer") (TNamed (nm "bar") (TRec [(nm "f", TNamed (nm "foo") (TRec [(nm "a", u8)]))]))),
         (VRec [VRec [tok1]]).
  split; [vm_compute; intuition discriminate | vm_compute; reflexivity].
Qed.

(* a name nested in a type of the same name: formatType binds the outer name
   before it writes the definition, convertType after it read it, so the two
   sides end with different bindings of the name (covered by F-C02-7) *)
Theorem name_nested_in_itself_refuted :
  exists l, Forall (fun tv => wf (fst tv) (snd tv)) l /\
    conv_stream [] (fmt_stream PNone false fstate0 l) <> map Some l.
Proof.
  exists [ (TNamed (nm "nest") (TRec [(nm "k", TNamed (nm "nest") u8)]), VNull);
           (TNamed (nm "nest") u8, tok1) ].
  split.
  - repeat constructor; vm_compute; intuition discriminate.
  - vm_compute. discriminate.
Qed.

(* non-vacuity: [good] admits named types, repeated and redefined names *)
Example good_example :
  let foo1 := TNamed (nm "foo") (TRec [(nm "a", u8)]) in
  let foo2 := TNamed (nm "foo") (TRec [(nm "b", u8)]) in
  let t := TRec [(nm "x", foo1); (nm "y", foo2); (nm "z", foo1);
                 (nm "e", TNamed (nm "T") (TArr u8)); (nm "w", TNamed (nm "o") (TNamed (nm "i") u8))] in
  let v := VRec [VRec [tok1]; VRec [tok1]; VRec [tok1]; VArr []; tok1] in
  wf t v /\ good t /\
  conv_val [] (fst (fmt_top PNone fstate0 t v)) None <> None.
Proof. vm_compute. intuition (try discriminate). Qed.
