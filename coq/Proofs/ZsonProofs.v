(* C02: the decorator is elided only where the analyzer re-infers the same
   type; round trip of the anonymous fragment; witnesses of the defects of the
   faithful model. *)
From ZV Require Import Base.Prelude Model.Escape Model.Zson.
Local Open Scope N_scope.

(* ---------- induction principle for the nested type ---------- *)
Section TyInd.
  Variable P : ty -> Prop.
  Hypothesis HPrim : forall p, P (TPrim p).
  Hypothesis HRec : forall fs, Forall (fun nt => P (snd nt)) fs -> P (TRec fs).
  Hypothesis HArr : forall t, P t -> P (TArr t).
  Hypothesis HNamed : forall n t, P t -> P (TNamed n t).

  Fixpoint ty_ind' (t : ty) : P t :=
    match t with
    | TPrim p => HPrim p
    | TRec fs =>
      HRec fs ((fix go (fs : list (name * ty)) : Forall (fun nt => P (snd nt)) fs :=
                  match fs with
                  | [] => Forall_nil _
                  | (n, ft) :: fr => Forall_cons (n, ft) (ty_ind' ft) (go fr)
                  end) fs)
    | TArr u => HArr u (ty_ind' u)
    | TNamed n u => HNamed n u (ty_ind' u)
    end.
End TyInd.

Lemma name_eqb_refl n : name_eqb n n = true.
Proof. apply list_eqb_eq; [intros; apply N.eqb_eq | reflexivity]. Qed.

Lemma ty_eqb_refl : forall t, ty_eqb t t = true.
Proof.
  induction t as [p | fs IH | t IH | n t IH] using ty_ind'; simpl.
  - apply N.eqb_refl.
  - induction IH as [| [n ft] fr H _ IHfr]; [reflexivity|].
    simpl in H. rewrite name_eqb_refl, H, IHfr. reflexivity.
  - exact IH.
  - rewrite name_eqb_refl, IH. reflexivity.
Qed.

(* ---------- the anonymous fragment ---------- *)
Fixpoint anon (t : ty) : Prop :=
  match t with
  | TPrim _ => True
  | TRec fs => (fix go (fs : list (name * ty)) : Prop :=
                  match fs with [] => True | (_, ft) :: fr => anon ft /\ go fr end) fs
  | TArr u => anon u
  | TNamed _ _ => False
  end.

(* well-formed values: the token of a primitive value is one the parser can
   use at that type (castType), and has that very type when it is implied *)
Fixpoint wf (t : ty) (v : val) {struct t} : Prop :=
  match v with
  | VNull => True
  | _ =>
    match t with
    | TPrim p =>
      match v with
      | VPrim cls tok =>
        cls <> ID_NULL /\ p <> ID_NULL /\ cast_ok cls (TPrim p) = true /\
        (implied_prim p = true -> cls = p)
      | _ => False
      end
    | TRec fs =>
      match v with
      | VRec vs =>
        (fix go (fs : list (name * ty)) (vs : list val) : Prop :=
           match fs, vs with
           | [], [] => True
           | (_, ft) :: fr, x :: xr => wf ft x /\ go fr xr
           | _, _ => False
           end) fs vs
      | _ => False
      end
    | TArr u =>
      match v with
      | VArr vs => (fix go (vs : list val) : Prop :=
                      match vs with [] => True | x :: xr => wf u x /\ go xr end) vs
      | _ => False
      end
    | TNamed _ u => wf u v
    end
  end.

Lemma anon_has_name P st t : anon t -> has_name P st t = false.
Proof. destruct t; simpl; try reflexivity. intros []. Qed.

Lemma anon_name_of P st t : anon t -> name_of P st t = None.
Proof. destruct t; simpl; try reflexivity. intros []. Qed.

(* formatType of an anonymous type is read back by convertType; no state changes *)
Lemma fmt_type_anon P : forall t st a, anon t ->
  exists y, fmt_type P st t = (y, st) /\ conv_type a y = Some (t, a).
Proof.
  induction t as [p | fs IH | t IH | n t IH] using ty_ind'; intros st a A.
  - exists (YPrim p). split; reflexivity.
  - assert (L : exists ys,
      (fix go (fs : list (name * ty)) (st : fstate) : list (name * tyast) * fstate :=
         match fs with
         | [] => ([], st)
         | (n, ft) :: fr =>
           let '(y, st1) := fmt_type P st ft in
           let '(ys, st2) := go fr st1 in ((n, y) :: ys, st2)
         end) fs st = (ys, st) /\
      (fix go (fs : list (name * tyast)) (a : astate) : option (list (name * ty) * astate) :=
         match fs with
         | [] => Some ([], a)
         | (n, fy) :: fr =>
           match conv_type a fy with
           | Some (t, a1) =>
             match go fr a1 with Some (ts, a2) => Some ((n, t) :: ts, a2) | None => None end
           | None => None
           end
         end) ys a = Some (fs, a)).
    { induction IH as [| [n ft] fr H _ IHfr].
      - exists []. split; reflexivity.
      - simpl in A. destruct A as [A1 A2]. simpl in H.
        destruct (H st a A1) as (y & F & C). destruct (IHfr A2) as (ys & Fs & Cs).
        exists ((n, y) :: ys). split.
        + rewrite F, Fs. reflexivity.
        + rewrite C, Cs. reflexivity. }
    destruct L as (ys & Fs & Cs).
    exists (YRec ys). split.
    + simpl. rewrite Fs. reflexivity.
    + simpl. rewrite Cs. reflexivity.
  - simpl in A. destruct (IH st a A) as (y & F & C).
    exists (YArr y). split; simpl; [rewrite F | rewrite C]; reflexivity.
  - destruct A.
Qed.

Lemma implied_arr_elem u : implied (TArr u) = implied u.
Proof. reflexivity. Qed.

Lemma ty_eqb_prim u q : ty_eqb u (TPrim q) = true -> u = TPrim q.
Proof.
  destruct u; simpl; try discriminate. intros E. apply N.eqb_eq in E. congruence.
Qed.

Lemma elem_type_all u ts : Forall (fun t => t = u) ts -> ts <> [] -> elem_type ts = Some u.
Proof.
  intros H. induction H as [| t r E _ IH]; intros NE; [congruence|].
  subst t. destruct r as [|t' r'].
  - cbn [elem_type]. destruct (ty_eqb u (TPrim ID_NULL)) eqn:E1.
    + apply ty_eqb_prim in E1. congruence.
    + rewrite (ty_eqb_refl (TPrim ID_NULL)). reflexivity.
  - cbn [elem_type] in *. rewrite IH by congruence.
    destruct (ty_eqb u (TPrim ID_NULL)) eqn:E1; [reflexivity|].
    rewrite ty_eqb_refl. reflexivity.
Qed.

(* ---------- decorator sufficiency / round trip of one value with its decorator ---------- *)
Definition implied_ok (pi : bool) (t : ty) : Prop := pi = true -> implied t = true.

Lemma cast_ok_null c : cast_ok ID_NULL c = true.
Proof. reflexivity. Qed.

Lemma implied_field n ft fr : implied (TRec ((n, ft) :: fr)) = implied ft && implied (TRec fr).
Proof. reflexivity. Qed.

Ltac dec_null A F :=
  cbn [fv]; unfold decorate; cbn [ty_eqb];
  rewrite (anon_name_of _ _ _ A);
  repeat (rewrite ?andb_false_r, ?andb_true_r, ?orb_false_r; cbn [negb andb orb]);
  rewrite F; reflexivity.

Theorem fv_roundtrip_anon P : forall t v st a pi,
  anon t -> wf t v -> implied_ok pi t ->
  exists z, fv P st t v false pi true = (z, st) /\ conv_val a z None = Some (t, v, a).
Proof.
  induction t as [p | fs IH | u IH | n u IH] using ty_ind'; intros v st a pi A W I.
  - (* primitive *)
    destruct v as [| cls tok | vs | vs]; try (simpl in W; contradiction).
    + (* null *)
      simpl. unfold decorate. simpl.
      destruct (p =? ID_NULL) eqn:E.
      * apply N.eqb_eq in E. subst p. destruct pi; eexists; split; reflexivity.
      * unfold implied. destruct (implied_prim p); destruct pi; simpl; eexists; (split; [reflexivity|]); simpl; reflexivity.
    + simpl in W. destruct W as (W1 & W2 & W3 & W4).
      simpl. unfold decorate. simpl.
      destruct (implied_prim p) eqn:Ip.
      * rewrite (W4 eq_refl). simpl. eexists. split; [reflexivity|]. simpl.
        apply N.eqb_neq in W2. rewrite W2. reflexivity.
      * simpl. eexists. split; [reflexivity|]. simpl. rewrite W3.
        apply N.eqb_neq in W1. rewrite W1. reflexivity.
  - (* record *)
    destruct v as [| cls tok | vs | vs]; try (simpl in W; contradiction).
    + (* null: a cast with the whole type *)
      destruct (fmt_type_anon P (TRec fs) st a A) as (y & F & C).
      exists (ZCast znull y). split.
      * destruct pi; dec_null A F.
      * cbn [conv_val znull]. rewrite C. cbn [type_check conv_val conv_any].
        rewrite cast_ok_null. reflexivity.
    + (* a record value: fields are decorated as needed, the record itself never *)
      assert (L : forall st a, exists zs,
        (fix go (fs : list (name * ty)) (vs : list val) (st : fstate)
           : list (name * zval) * fstate :=
           match fs, vs with
           | (n, ft) :: fr, x :: xr =>
             let '(z, st1) := fv P st ft x (false || false) pi true in
             let '(zs, st2) := go fr xr st1 in ((n, z) :: zs, st2)
           | _, _ => ([], st)
           end) fs vs st = (zs, st) /\
        (fix go (fs : list (name * zval)) (a : astate)
           : option (list (name * ty) * list val * astate) :=
           match fs with
           | [] => Some ([], [], a)
           | (n, z) :: fr =>
             match conv_val a z None with
             | Some (t, v, a1) =>
               match go fr a1 with
               | Some (ts, vs, a2) => Some ((n, t) :: ts, v :: vs, a2)
               | None => None
               end
             | None => None
             end
           end) zs a = Some (fs, vs, a)).
      { clear st a. revert vs W I. simpl in A. induction IH as [| [n ft] fr H _ IHfr]; intros vs W I st a.
        - destruct vs; [|simpl in W; contradiction]. exists []. split; reflexivity.
        - destruct vs as [|x xr]; [simpl in W; contradiction|].
          simpl in W. destruct W as [W1 W2]. destruct A as [A1 A2]. simpl in H.
          assert (I1 : implied_ok pi ft).
          { intros E. specialize (I E). rewrite implied_field in I. apply andb_true_iff in I. tauto. }
          assert (I2 : implied_ok pi (TRec fr)).
          { intros E. specialize (I E). rewrite implied_field in I. apply andb_true_iff in I. tauto. }
          destruct (H x st a pi A1 W1 I1) as (z & F & C).
          destruct (IHfr A2 xr W2 I2 st a) as (zs & Fs & Cs).
          exists ((n, z) :: zs). split.
          + cbn -[fv conv_val conv_any] in *. rewrite F, Fs. reflexivity.
          + cbn -[fv conv_val conv_any] in *. rewrite C, Cs. reflexivity. }
      destruct (L st a) as (zs & Fs & Cs).
      exists (ZImplied (ARec zs)). split.
      * cbn [fv]. rewrite (anon_has_name P st _ A). rewrite Fs.
        unfold decorate. cbn [negb andb orb].
        rewrite (anon_name_of P st _ A).
        destruct (implied (TRec fs)); cbn [negb andb orb wrap selfdesc]; try reflexivity.
        rewrite orb_true_r. reflexivity.
      * cbn [conv_val conv_any]. rewrite Cs. reflexivity.
  - (* array *)
    destruct v as [| cls tok | vs | vs]; try (simpl in W; contradiction).
    + destruct (fmt_type_anon P (TArr u) st a A) as (y & F & C).
      exists (ZCast znull y). split.
      * destruct pi; dec_null A F.
      * cbn [conv_val znull]. rewrite C. cbn [type_check conv_val conv_any].
        rewrite cast_ok_null. reflexivity.
    + destruct vs as [|x0 xr0].
      * (* the empty array inside a value is decorated with its full type *)
        destruct (fmt_type_anon P (TArr u) st a A) as (y & F & C).
        exists (ZCast (ZImplied (AArr [])) y). split.
        -- dec_null A F.
        -- cbn [conv_val]. rewrite C. cbn [type_check conv_val conv_any under]. reflexivity.
      * assert (I' : implied_ok pi u) by exact I.
        simpl in A.
        assert (L : forall vs st a,
          (fix go (vs : list val) : Prop :=
             match vs with [] => True | x :: xr => wf u x /\ go xr end) vs ->
          exists zs,
          (fix go (vs : list val) (st : fstate) : list zval * fstate :=
             match vs with
             | [] => ([], st)
             | x :: xr =>
               let '(z, st1) := fv P st u x (false || false) pi true in
               let '(zs, st2) := go xr st1 in (z :: zs, st2)
             end) vs st = (zs, st) /\
          (fix go (es : list zval) (a : astate) : option (list ty * list val * astate) :=
             match es with
             | [] => Some ([], [], a)
             | z :: er =>
               match conv_val a z None with
               | Some (t, v, a1) =>
                 match go er a1 with
                 | Some (ts, vs, a2) => Some (t :: ts, v :: vs, a2)
                 | None => None
                 end
               | None => None
               end
             end) zs a = Some (map (fun _ => u) vs, vs, a)).
        { clear st a. induction vs as [|x xr IHx]; intros st a Wv.
          - exists []. split; reflexivity.
          - destruct Wv as [W1 W2].
            destruct (IH x st a pi A W1 I') as (z & F & C).
            destruct (IHx st a W2) as (zs & Fs & Cs).
            exists (z :: zs). split.
            + cbn -[fv conv_val conv_any] in *. rewrite F, Fs. reflexivity.
            + cbn -[fv conv_val conv_any] in *. rewrite C, Cs. reflexivity. }
        simpl in W.
        destruct (L (x0 :: xr0) st a W) as (zs & Fs & Cs).
        exists (ZImplied (AArr zs)). split.
        -- cbn [fv]. rewrite (anon_has_name P st (TArr u) A). rewrite Fs.
           unfold decorate. cbn [negb andb orb].
           rewrite (anon_name_of P st (TArr u) A).
           destruct (implied (TArr u)); cbn [negb andb orb wrap selfdesc]; try reflexivity.
           rewrite orb_true_r. reflexivity.
        -- cbn [conv_val conv_any]. rewrite Cs.
           rewrite (elem_type_all u); [reflexivity | | discriminate].
           apply Forall_forall. intros t Hin. apply in_map_iff in Hin. destruct Hin as (? & E & _). auto.
  - destruct A.
Qed.

(* a value at the top of a text: everything but the empty container *)
Definition top_ok (t : ty) (v : val) : Prop :=
  match t, v with TArr _, VArr [] => False | _, _ => True end.

Theorem top_roundtrip_anon P : forall t v st a,
  anon t -> wf t v -> top_ok t v ->
  exists z, fmt_top P st t v = (z, st) /\ conv_val a z None = Some (t, v, a).
Proof.
  intros t v st a A W T.
  destruct (fv_roundtrip_anon P t v st a (implied t) A W (fun e => e)) as (z & F & C).
  exists z. split; [|exact C].
  unfold fmt_top. rewrite (anon_has_name P st t A).
  (* fv with dec=true is fv with dec=false followed by decorate with the same flags,
     except for the empty array where the top level passes null=false *)
  destruct t as [p | fs | u | n u]; [ | | | destruct A];
    destruct v as [| cls tok | vs | vs]; try (simpl in W; contradiction);
    cbn [fv is_null] in F |- *.
  - destruct (implied (TPrim p)); exact F.
  - exact F.
  - destruct (implied (TRec fs)); exact F.
  - rewrite (anon_has_name P st (TRec fs) A) in *.
    revert F.
    match goal with |- context [let '(zs, st1) := ?g in (ZImplied (ARec zs), false, st1)] =>
      destruct g as [zs st1] end.
    intros F. exact F.
  - destruct (implied (TArr u)); exact F.
  - destruct vs as [|x xr]; [simpl in T; contradiction|].
    rewrite (anon_has_name P st (TArr u) A) in *.
    revert F.
    match goal with |- context [let '(zs, st1) := ?g in (ZImplied (AArr zs), false, st1)] =>
      destruct g as [zs st1] end.
    intros F. exact F.
Qed.

(* streams of anonymous values: any typedef scope, any persist setting *)
Theorem stream_roundtrip_anon P reset : forall l st a,
  Forall (fun tv => anon (fst tv) /\ wf (fst tv) (snd tv) /\ top_ok (fst tv) (snd tv)) l ->
  conv_stream a (fmt_stream P reset st l) = map Some l.
Proof.
  induction l as [| [t v] r IH]; intros st a H; [reflexivity|].
  inversion H as [| ? ? (A & W & T) Hr]; subst. simpl in A, W, T.
  simpl.
  destruct (top_roundtrip_anon P t v (if reset then mkF [] (perm st) else st) a A W T) as (z & F & C).
  rewrite F. simpl. rewrite C. f_equal. apply IH. exact Hr.
Qed.

(* ---------- witnesses: where the faithful model does not round-trip ---------- *)
Definition u8 : ty := TPrim 0.
Definition tok1 : val := VPrim 9 [49].
Definition nm (s : string) : name := s2l s.

(* [] of type [uint8] at the top of a text is written "[]" and read as [null] *)
Theorem toplevel_empty_array_refuted :
  exists t v, anon t /\ wf t v /\
    conv_val [] (fst (fmt_top PNone fstate0 t v)) None <> Some (t, v, []).
Proof.
  exists (TArr u8), (VArr []). split; [exact I|]. split; [exact I|].
  vm_compute. discriminate.
Qed.

(* a name bound to a second type: {b:1} of foo={b:uint8} after foo={a:uint8} *)
Theorem redefined_name_refuted :
  exists l, Forall (fun tv => wf (fst tv) (snd tv)) l /\
    conv_stream [] (fmt_stream PNone false fstate0 l) <> map Some l.
Proof.
  exists [ (TNamed (nm "foo") (TRec [(nm "a", u8)]), VRec [tok1]);
           (TNamed (nm "foo") (TRec [(nm "b", u8)]), VRec [tok1]) ].
  split.
  - repeat constructor; vm_compute; intuition discriminate.
  - vm_compute. discriminate.
Qed.

(* a named type whose definition is a named type loses the inner name *)
Theorem named_of_named_refuted :
  exists t v, wf t v /\
    option_map (fun r => fst (fst r)) (conv_val [] (fst (fmt_top PNone fstate0 t v)) None) <> Some t.
Proof.
  exists (TNamed (nm "outer") (TNamed (nm "inner") (TRec [(nm "a", u8)]))), (VRec [tok1]).
  split.
  - vm_compute. intuition discriminate.
  - vm_compute. discriminate.
Qed.

(* non-vacuity of the hypotheses of the round-trip theorems *)
Example anon_example :
  let t := TRec [(nm "a", u8); (nm "b", TArr (TPrim 9)); (nm "c", TArr u8)] in
  let v := VRec [tok1; VArr [tok1; VNull]; VArr []] in
  anon t /\ wf t v /\ top_ok t v /\
  conv_val [] (fst (fmt_top PNone fstate0 t v)) None = Some (t, v, []).
Proof. vm_compute. intuition discriminate. Qed.
