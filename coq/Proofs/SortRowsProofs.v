(* C06: the generic sort/merge theorems instantiated with the model of
   Comparator.Compare on rows of key values. *)
From Coq Require Import Sorting.Permutation Sorting.Sorted.
From ZV Require Import Base.Prelude Base.Num Model.Order Model.Sort
     Proofs.OrderProofs Proofs.SortProofs.
Local Open Scope Z_scope.

Section Rows.
  Variable nm : bool.
  Variable ks : list bool.

  Definition ltr (a b : irow) : bool := lt_rows nm ks (snd a) (snd b).
  (* rows of well-formed key values *)
  Definition Dr (r : irow) : Prop := rowD wfv (snd r).

  Lemma Dr_in_range r : Dr r -> in_range (hd vnull (snd r)).
  Proof. intros H. apply wfv_in_range. apply rowD_hd; [exact I | exact H]. Qed.

  Lemma ltr_irr x : Dr x -> ltr x x = false.
  Proof.
    intros _. unfold ltr, lt_rows.
    pose proof (compare_rows_antisym nm ks (snd x) (snd x)) as H.
    destruct (compare_rows nm ks (snd x) (snd x)); simpl in H; congruence.
  Qed.

  Lemma ltr_asym x y : Dr x -> Dr y -> ltr x y = true -> ltr y x = false.
  Proof.
    intros _ _. unfold ltr, lt_rows.
    rewrite (compare_rows_antisym nm ks (snd x) (snd y)).
    destruct (compare_rows nm ks (snd x) (snd y)); simpl; congruence.
  Qed.

  Lemma ltr_lt_le x y z : Dr x -> Dr y -> Dr z ->
    ltr x y = true -> ltr z y = false -> ltr x z = true.
  Proof.
    intros Dx Dy Dz. unfold ltr, lt_rows.
    pose proof (compare_rows_strans nm ks (snd x) (snd y) (snd z) Dx Dy Dz) as HS.
    unfold strans in HS.
    rewrite (compare_rows_antisym nm ks (snd y) (snd z)).
    destruct (compare_rows nm ks (snd x) (snd y)) eqn:E1; try discriminate.
    destruct (compare_rows nm ks (snd y) (snd z)) eqn:E2; simpl; try discriminate;
      intros _ _; rewrite HS by congruence; reflexivity.
  Qed.

  Lemma ltr_le_le x y z : Dr x -> Dr y -> Dr z ->
    ltr y x = false -> ltr z y = false -> ltr z x = false.
  Proof.
    intros Dx Dy Dz. unfold ltr, lt_rows.
    pose proof (compare_rows_strans nm ks (snd x) (snd y) (snd z) Dx Dy Dz) as HS.
    unfold strans in HS.
    rewrite (compare_rows_antisym nm ks (snd x) (snd y)).
    rewrite (compare_rows_antisym nm ks (snd y) (snd z)).
    rewrite (compare_rows_antisym nm ks (snd x) (snd z)).
    destruct (compare_rows nm ks (snd x) (snd y)) eqn:E1; simpl; try discriminate;
    destruct (compare_rows nm ks (snd y) (snd z)) eqn:E2; simpl; try discriminate;
      intros _ _; rewrite HS by congruence; reflexivity.
  Qed.

  (* the bulk sorter (native int64 table included) = stable sort by Compare *)
  Lemma sort_run_ok r : Forall Dr r -> sort_run nm ks r = stable_sort ltr r.
  Proof.
    intros Hr. unfold sort_run. apply stable_sort_ext.
    intros a b Ha Hb. rewrite Forall_forall in Hr.
    apply less_rows_agrees; apply Dr_in_range; [apply (Hr a Ha) | apply (Hr b Hb)].
  Qed.

  Theorem sort_op_rows_is_stable_sort mem bs :
    Forall Dr (List.concat (map snd bs)) ->
    sort_op_rows nm ks mem bs = stable_sort ltr (List.concat (map snd bs)).
  Proof.
    intros H. unfold sort_op_rows.
    apply sort_op_is_stable_sort with (D := Dr);
      eauto using ltr_irr, ltr_asym, ltr_lt_le, ltr_le_le, sort_run_ok.
  Qed.

  Theorem ext_sort_rows_is_stable_sort runs :
    Forall (Forall Dr) runs ->
    ext_sort ltr (sort_run nm ks) runs = stable_sort ltr (List.concat runs).
  Proof.
    intros H. apply ext_sort_is_stable_sort with (D := Dr);
      eauto using ltr_irr, ltr_asym, ltr_lt_le, ltr_le_le, sort_run_ok.
  Qed.

  Theorem stable_sort_rows_sorted l :
    Forall Dr l -> StronglySorted (fun a b => ltr b a = false) (stable_sort ltr l).
  Proof.
    intros H. apply stable_sort_sorted with (D := Dr);
      eauto using ltr_irr, ltr_asym, ltr_lt_le, ltr_le_le.
  Qed.

  Theorem stable_sort_rows_stable x l :
    Dr x -> Forall Dr l ->
    filter (eqvb ltr x) (stable_sort ltr l) = filter (eqvb ltr x) l.
  Proof.
    intros Hx H. apply stable_sort_stable with (D := Dr);
      eauto using ltr_irr, ltr_asym, ltr_lt_le, ltr_le_le.
  Qed.

  Theorem kmerge_rows_sorted_perm rs out :
    kmerge ltr rs out -> Forall (Forall Dr) rs ->
    Forall (StronglySorted (fun a b => ltr b a = false)) rs ->
    Permutation out (List.concat rs) /\ StronglySorted (fun a b => ltr b a = false) out.
  Proof.
    intros Hk H1 H2. apply kmerge_sorted_perm with (D := Dr);
      eauto using ltr_irr, ltr_asym, ltr_lt_le, ltr_le_le.
  Qed.
End Rows.

(* non-vacuity: a run-split input mixing integers beyond 2^53 with floats *)
Example sort_example :
  let rows := [(0%N, [VInt I64 9007199254740993]); (1%N, [VNull (TPrim 9)]);
               (2%N, [VUint U64 18446744073709551615]); (3%N, [VFloat F64 (FFin 1 53)]);
               (4%N, [VInt I64 9007199254740992]); (5%N, [VInt I64 (-9223372036854775808)])] in
  Forall Dr rows /\
  map fst (sort_op_rows false [false] 1 [(8, firstn 2 rows); (8, skipn 2 rows)]) = [1; 5; 3; 4; 0; 2]%N.
Proof.
  split.
  - repeat constructor; unfold mini64, maxi64; simpl; try lia; exact I.
  - vm_compute. reflexivity.
Qed.

(* ---- the final forms *)
Definition rows_ok (l : list irow) : Prop := Forall Dr l.

Lemma rows_ok_split (runs : list (list irow)) :
  rows_ok (List.concat runs) -> Forall (Forall Dr) runs.
Proof.
  intros H. apply Forall_forall. intros r Hr. apply Forall_forall. intros x Hx.
  unfold rows_ok in H. rewrite Forall_forall in H. apply H. apply in_concat. exists r. split; assumption.
Qed.

Theorem sort_any_memory_limit nullsFirst reverse descs mem bs :
  let ks := eff_keys reverse descs in
  let nm := eff_nullsmax nullsFirst ks in
  rows_ok (List.concat (map snd bs)) ->
  sort_op_rows nm ks mem bs = stable_sort (ltr nm ks) (List.concat (map snd bs)).
Proof. intros ks nm H. apply sort_op_rows_is_stable_sort. assumption. Qed.

Theorem sort_spill_invariant nm ks mem1 mem2 bs1 bs2 :
  List.concat (map snd bs1) = List.concat (map snd bs2) ->
  rows_ok (List.concat (map snd bs1)) ->
  sort_op_rows nm ks mem1 bs1 = sort_op_rows nm ks mem2 bs2.
Proof.
  intros E H.
  rewrite (sort_op_rows_is_stable_sort nm ks mem1 bs1 H).
  rewrite E in H. rewrite (sort_op_rows_is_stable_sort nm ks mem2 bs2 H).
  rewrite E. reflexivity.
Qed.

Theorem external_sort_any_runs nm ks runs :
  rows_ok (List.concat runs) ->
  ext_sort (ltr nm ks) (sort_run nm ks) runs = stable_sort (ltr nm ks) (List.concat runs).
Proof. intros H. apply ext_sort_rows_is_stable_sort. apply rows_ok_split. assumption. Qed.

Theorem stable_sort_spec nm ks l :
  rows_ok l ->
  Permutation (stable_sort (ltr nm ks) l) l /\
  StronglySorted (fun a b => lt_rows nm ks (snd b) (snd a) = false) (stable_sort (ltr nm ks) l) /\
  (forall x, In x l ->
     filter (eqvb (ltr nm ks) x) (stable_sort (ltr nm ks) l) = filter (eqvb (ltr nm ks) x) l).
Proof.
  intros H. split; [apply stable_sort_perm|]. split.
  - apply stable_sort_rows_sorted. assumption.
  - intros x Hx. apply stable_sort_rows_stable; [|assumption].
    unfold rows_ok in H. rewrite Forall_forall in H. apply H. assumption.
Qed.

Theorem kmerge_spec nm ks rs out :
  rows_ok (List.concat rs) ->
  Forall (StronglySorted (fun a b => lt_rows nm ks (snd b) (snd a) = false)) rs ->
  kmerge (ltr nm ks) rs out ->
  Permutation out (List.concat rs) /\
  StronglySorted (fun a b => lt_rows nm ks (snd b) (snd a) = false) out.
Proof.
  intros H Hs Hk. apply (kmerge_rows_sorted_perm nm ks rs out Hk (rows_ok_split rs H) Hs).
Qed.
