(* C11: what the length arithmetic of the ZNG reader guarantees, what it does
   not (witnesses), and that the proposed repair of readUvarintAsInt removes
   every panic of the modelled code. *)
From ZV Require Import Base.Prelude Model.ZngSafe.
Local Open Scope Z_scope.

(* ---------- uvarint ---------- *)

Lemma read_uvarint_from_nonneg : forall n i x s b v r,
  0 <= x -> 0 <= s ->
  read_uvarint_from i n x s b = UvOk v r -> 0 <= v /\ (List.length r < List.length b)%nat.
Proof.
  induction n as [|n IH]; intros i x s b v r Hx Hs H; simpl in H; [discriminate|].
  destruct b as [|c b']; [destruct i; discriminate|].
  assert (Hc : 0 <= Z.of_N c) by apply N2Z.is_nonneg.
  destruct (Z.of_N c <? 128) eqn:E.
  - destruct (Nat.eqb i 9 && (1 <? Z.of_N c))%bool; [discriminate|].
    inversion H; subst. split; [|simpl; lia].
    assert (0 <= 2 ^ s) by (apply Z.pow_nonneg; lia). nia.
  - apply Z.ltb_ge in E.
    apply IH in H; [| |lia].
    + destruct H as [H1 H2]. split; [exact H1|simpl; lia].
    + assert (0 <= 2 ^ s) by (apply Z.pow_nonneg; lia). nia.
Qed.

Lemma read_uvarint_ok : forall b v r,
  read_uvarint b = UvOk v r -> 0 <= v /\ (List.length r < List.length b)%nat.
Proof. intros b v r H. unfold read_uvarint in H. eapply read_uvarint_from_nonneg in H; auto; lia. Qed.

Lemma wrap64_small : forall u, 0 <= u < two63 -> wrap64 u = u.
Proof.
  intros u [H0 H1]. unfold wrap64.
  assert (E : u mod two64 = u) by (apply Z.mod_small; unfold two63, two64 in *; lia).
  rewrite E. apply Z.ltb_lt in H1. rewrite H1. reflexivity.
Qed.

(* the repaired conversion only yields non-negative ints, and consumes input *)
Lemma read_int_checked : forall b v r,
  read_int true b = IOk v r -> 0 <= v /\ (List.length r < List.length b)%nat.
Proof.
  intros b v r H. unfold read_int in H.
  destruct (read_uvarint b) as [u r'| | |] eqn:E; try discriminate.
  apply read_uvarint_ok in E. destruct E as [E1 E2].
  simpl in H. destruct (two63 <=? u) eqn:L; [discriminate|].
  apply Z.leb_gt in L. inversion H; subst. rewrite wrap64_small by lia. split; assumption.
Qed.

Lemma read_int_consumes : forall c b v r,
  read_int c b = IOk v r -> (List.length r < List.length b)%nat.
Proof.
  intros c b v r H. unfold read_int in H.
  destruct (read_uvarint b) as [u r'| | |] eqn:E; try discriminate.
  apply read_uvarint_ok in E.
  destruct (c && (two63 <=? u))%bool; [discriminate|]. inversion H; subst. tauto.
Qed.

(* ---------- frames: the uncompressed path never panics, as the code is ---------- *)

Lemma peek_read_no_panic : forall max n b, peek_read max n b <> RPanic.
Proof.
  intros max n b. unfold peek_read.
  destruct (n <? 0); [discriminate|]. destruct (n <=? blen b); [discriminate|].
  destruct (max <? n); [discriminate|]. destruct b; discriminate.
Qed.

Lemma decode_length_no_panic : forall c code b, decode_length c code b <> RPanic.
Proof. intros c code b. unfold decode_length. destruct (read_int c b); discriminate. Qed.

Theorem read_frame_no_panic : forall c max code b, read_frame c max code b <> RPanic.
Proof.
  intros c max code b. unfold read_frame.
  destruct (decode_length c code b) as [[size r]|e| |] eqn:E; try discriminate.
  - destruct (max <? size); [discriminate|].
    pose proof (peek_read_no_panic max size r) as P.
    destruct (peek_read max size r) as [a|e| |]; try discriminate; [destruct e; discriminate | congruence].
  - exfalso. eapply decode_length_no_panic; eauto.
Qed.

Lemma firstn_blen : forall n (b : bytes), 0 <= n -> n <= blen b -> blen (take n b) = n.
Proof.
  intros n b H0 H1. unfold blen, take in *. rewrite firstn_length. lia.
Qed.

(* a frame handed to the decoder never exceeds the configured maximum *)
Theorem read_frame_bounded : forall c max code b p r,
  read_frame c max code b = ROk (p, r) -> blen p <= max.
Proof.
  intros c max code b p r H. unfold read_frame in H.
  destruct (decode_length c code b) as [[size r0]|e| |]; try discriminate.
  destruct (max <? size) eqn:M; [discriminate|]. apply Z.ltb_ge in M.
  unfold peek_read in H.
  destruct (size <? 0) eqn:N0; [discriminate|]. apply Z.ltb_ge in N0.
  destruct (size <=? blen r0) eqn:L.
  - apply Z.leb_le in L. inversion H; subst. rewrite firstn_blen; lia.
  - destruct (max <? size); [discriminate|]. destruct r0; discriminate.
Qed.

(* the buffer for the uncompressed data of an LZ4 frame is bounded as well *)
Theorem read_comp_header_bounded : forall c max code b fmt size z r,
  read_comp_header c max code b = ROk (fmt, size, z, r) -> 0 <= size <= max.
Proof.
  intros c max code b fmt size z r H. unfold read_comp_header in H.
  destruct (decode_length c code b) as [[n r0]|e| |]; try discriminate.
  destruct r0 as [|f r1]; [discriminate|].
  destruct (read_int c r1) as [sz r2| | | |]; try discriminate.
  destruct (max <? sz) eqn:M; [discriminate|]. apply Z.ltb_ge in M.
  destruct (peek_read max _ r2) as [[z' r3]|e| |]; try discriminate.
  - destruct (sz <? 0) eqn:N0; [discriminate|]. apply Z.ltb_ge in N0. inversion H; subst. lia.
  - destruct e; discriminate.
  - destruct (sz <? 0) eqn:N0; [discriminate|]. apply Z.ltb_ge in N0. inversion H; subst. lia.
Qed.

(* ---------- without the range check of readUvarintAsInt the reader panics:
   one witness per site that the check protects ---------- *)

Definition no_lz4 : bytes -> Z -> option bytes := fun _ _ => None.
Definition mib : Z := 1048576.

(* 13 bytes: values frame, LZ4, uncompressed size 2^63  -> newBuffer(negative) *)
Definition w_newbuffer : bytes := hex "5b000080808080808080808001".
(* 13 bytes: types frame, typedef "named" whose name length is 2^63 -> buffer.read(negative) *)
Definition w_bufread : bytes := hex "0b000780808080808080808001".
(* 13 bytes: values frame whose first value has type id 2^64-1 -> cache[-1] *)
Definition w_lookup : bytes := hex "1b00ffffffffffffffffff0100".

Lemma newbuffer_witness : out (parse no_lz4 false mib w_newbuffer) = Panic.
Proof. vm_compute. reflexivity. Qed.
Lemma bufread_witness : out (parse no_lz4 false mib w_bufread) = Panic.
Proof. vm_compute. reflexivity. Qed.
Lemma lookup_witness : out (parse no_lz4 false mib w_lookup) = Panic.
Proof. vm_compute. reflexivity. Qed.

(* the same inputs are refused by the code as it is *)
Lemma witnesses_rejected :
  out (zng_parse no_lz4 mib w_newbuffer) = Err EBadFormat /\
  out (zng_parse no_lz4 mib w_bufread) = Err EBadFormat /\
  out (zng_parse no_lz4 mib w_lookup) = Err EBadFormat.
Proof. repeat split; vm_compute; reflexivity. Qed.

Theorem uvarint_guard_necessary :
  (exists b, List.length b = 13%nat /\ read_comp_header false mib 91 (tl b) = RPanic) /\
  (exists b, List.length b = 13%nat /\ out (parse no_lz4 false mib b) = Panic /\ nth 0 b 0%N = 11%N) /\
  (exists b, List.length b = 13%nat /\ out (parse no_lz4 false mib b) = Panic /\ nth 0 b 0%N = 27%N).
Proof.
  split; [|split].
  - exists w_newbuffer. split; vm_compute; reflexivity.
  - exists w_bufread. repeat split; vm_compute; reflexivity.
  - exists w_lookup. repeat split; vm_compute; reflexivity.
Qed.

(* ---------- the code as it is ([checked = true]): nothing in the model panics ---------- *)

Section Fixed.
  Variable lz4 : bytes -> Z -> option bytes.
  Variable max : Z.

  Lemma counted_string_fixed : forall b, counted_string true b <> RPanic.
  Proof.
    intros b. unfold counted_string.
    destruct (read_int true b) as [n r| | | |] eqn:E; try discriminate.
    apply read_int_checked in E. destruct E as [E _].
    assert (L : (n <? 0) = false) by (apply Z.ltb_ge; lia). rewrite L.
    destruct (blen r <? n); discriminate.
  Qed.

  Lemma type_id_no_panic : forall c nt b, type_id c nt b <> RPanic.
  Proof.
    intros c nt b. unfold type_id. destruct (read_int c b); try discriminate.
    destruct (lookup_type nt v); discriminate.
  Qed.

  Lemma fields_loop_fixed : forall fuel k nt b, fields_loop true fuel k nt b <> RPanic.
  Proof.
    induction fuel as [|f IH]; intros k nt b; simpl; destruct (k <=? 0); try discriminate.
    pose proof (counted_string_fixed b) as C.
    destruct (counted_string true b) as [r|e| |]; try discriminate; [|congruence].
    pose proof (type_id_no_panic true nt r) as T.
    destruct (type_id true nt r) as [r'|e| |]; try discriminate; [apply IH|congruence].
  Qed.

  Lemma ids_loop_no_panic : forall c fuel k nt b, ids_loop c fuel k nt b <> RPanic.
  Proof.
    induction fuel as [|f IH]; intros k nt b; simpl; destruct (k <=? 0); try discriminate.
    pose proof (type_id_no_panic c nt b) as T.
    destruct (type_id c nt b) as [r'|e| |]; try discriminate; [apply IH|congruence].
  Qed.

  Lemma syms_loop_fixed : forall fuel k b, syms_loop true fuel k b <> RPanic.
  Proof.
    induction fuel as [|f IH]; intros k b; simpl; destruct (k <=? 0); try discriminate.
    pose proof (counted_string_fixed b) as C.
    destruct (counted_string true b) as [r|e| |]; try discriminate; [apply IH|congruence].
  Qed.

  Lemma count_no_panic : forall c b, count c b <> RPanic.
  Proof. intros c b. unfold count. destruct (read_int c b); discriminate. Qed.

  Lemma typedef_fixed : forall nt code b, typedef true nt code b <> RPanic.
  Proof.
    intros nt code b. unfold typedef.
    destruct (code =? 0).
    { pose proof (count_no_panic true b) as C.
      destruct (count true b) as [[n r]|e| |]; try discriminate; [apply fields_loop_fixed|congruence]. }
    destruct ((code =? 1) || (code =? 2) || (code =? 6))%bool; [apply type_id_no_panic|].
    destruct (code =? 3).
    { pose proof (type_id_no_panic true nt b) as T.
      destruct (type_id true nt b) as [r|e| |]; try discriminate; [apply type_id_no_panic|congruence]. }
    destruct (code =? 4).
    { pose proof (count_no_panic true b) as C.
      destruct (count true b) as [[n r]|e| |]; try discriminate; [|congruence].
      destruct (n =? 0); [discriminate|apply ids_loop_no_panic]. }
    destruct (code =? 5).
    { pose proof (count_no_panic true b) as C.
      destruct (count true b) as [[n r]|e| |]; try discriminate; [apply syms_loop_fixed|congruence]. }
    destruct (code =? 7); [|discriminate].
    pose proof (counted_string_fixed b) as C.
    destruct (counted_string true b) as [r|e| |]; try discriminate; [apply type_id_no_panic|congruence].
  Qed.

  Lemma typedefs_fixed : forall fuel nt b, typedefs true fuel nt b <> RPanic.
  Proof.
    induction fuel as [|f IH]; intros nt b; destruct b as [|c r]; simpl; try discriminate.
    pose proof (typedef_fixed nt (Z.of_N c) r) as T.
    destruct (typedef true nt (Z.of_N c) r) as [r'|e| |]; try discriminate; [apply IH|congruence].
  Qed.

  Lemma decode_val_fixed : forall nt b, decode_val true nt b <> RPanic.
  Proof.
    intros nt b. unfold decode_val.
    destruct (read_int true b) as [id r| | | |] eqn:E; try discriminate.
    apply read_int_checked in E. destruct E as [E _].
    destruct (read_uvarint r) as [t r1| | |]; try discriminate.
    set (n := if t =? 0 then -1 else wrap64 (t - 1)).
    assert (L : (id <? 0) = false) by (apply Z.ltb_ge; lia).
    destruct (0 <? n).
    - destruct (n <=? blen r1).
      + rewrite L. destruct (val_type_ok nt id); discriminate.
      + destruct r1; [|discriminate]. rewrite L. destruct (val_type_ok nt id); discriminate.
    - rewrite L. destruct (val_type_ok nt id); discriminate.
  Qed.

  Lemma values_fixed : forall fuel nt k b, values true fuel nt k b <> RPanic.
  Proof.
    induction fuel as [|f IH]; intros nt k b; destruct b as [|c r]; simpl; try discriminate.
    pose proof (decode_val_fixed nt (c :: r)) as D.
    destruct (decode_val true nt (c :: r)) as [r'|e| |]; try discriminate; [apply IH|congruence].
  Qed.

  Lemma read_comp_header_fixed : forall code b, read_comp_header true max code b <> RPanic.
  Proof.
    intros code b. unfold read_comp_header.
    pose proof (decode_length_no_panic true code b) as D.
    destruct (decode_length true code b) as [[n r]|e| |]; try discriminate; [|congruence].
    destruct r as [|f r1]; [discriminate|].
    destruct (read_int true r1) as [size r2| | | |] eqn:E; try discriminate.
    apply read_int_checked in E. destruct E as [E _].
    assert (L : (size <? 0) = false) by (apply Z.ltb_ge; lia).
    destruct (max <? size); [discriminate|].
    pose proof (peek_read_no_panic max (wrap64 (n - (1 + size_of_uvarint (size mod two64)))) r2) as P.
    destruct (peek_read max _ r2) as [[z r3]|e| |]; rewrite ?L; try discriminate; [destruct e; discriminate|congruence].
  Qed.

  Lemma decompress_no_panic : forall f s z, decompress lz4 f s z <> RPanic.
  Proof.
    intros f s z. unfold decompress. destruct (negb (f =? 0)); [discriminate|].
    destruct (lz4 z s); discriminate.
  Qed.

  Lemma read_payload_fixed : forall code b, read_payload lz4 true max code b <> RPanic.
  Proof.
    intros code b. unfold read_payload.
    destruct ((code / 64) mod 2 =? 1); [|apply read_frame_no_panic].
    pose proof (read_comp_header_fixed code b) as H.
    destruct (read_comp_header true max code b) as [[[[f s] z] r]|e| |]; try discriminate; [|congruence].
    pose proof (decompress_no_panic f s z) as D.
    destruct (decompress lz4 f s z); try discriminate; congruence.
  Qed.

  Opaque typedefs values read_payload.
  Lemma stream_fixed : forall fuel nt nv sm b,
    out (stream lz4 true max fuel nt nv sm b) <> Panic.
  Proof.
    induction fuel as [|f IH]; intros nt nv sm b; destruct b as [|c r]; simpl; try discriminate.
    destruct (Z.of_N c =? 255); [apply IH|].
    destruct (128 <=? Z.of_N c); [simpl; discriminate|].
    destruct ((Z.of_N c / 16) mod 4 =? 3); [simpl; discriminate|].
    pose proof (read_payload_fixed (Z.of_N c) r) as P.
    destruct (read_payload lz4 true max (Z.of_N c) r) as [[p r']|e| |]; simpl; try discriminate; [|congruence].
    destruct ((Z.of_N c / 16) mod 4 =? 0).
    { pose proof (typedefs_fixed (S (List.length p)) nt p) as T.
      destruct (typedefs true (S (List.length p)) nt p) as [nt'|e| |]; simpl; try discriminate; [apply IH|congruence]. }
    destruct ((Z.of_N c / 16) mod 4 =? 1).
    { pose proof (values_fixed (S (List.length p)) nt 0%N p) as V.
      destruct (values true (S (List.length p)) nt 0%N p) as [k|e| |]; simpl; try discriminate; [apply IH|congruence]. }
    destruct p; [simpl; discriminate|apply IH].
  Qed.

  Transparent typedefs values read_payload.

  Theorem parse_fixed_no_panic : forall b, out (parse lz4 true max b) <> Panic.
  Proof. intros b. unfold parse. apply stream_fixed. Qed.

  Theorem zng_no_panic : forall b, out (zng_parse lz4 max b) <> Panic.
  Proof. exact parse_fixed_no_panic. Qed.
End Fixed.

(* ---------- progress: the explicit fuel is never what stops a loop ---------- *)

(* Every iteration of the value loop consumes input, so [length b] iterations
   suffice: the [EFuel] branch is dead. *)
Lemma decode_val_consumes : forall c nt b r,
  decode_val c nt b = ROk r -> (List.length r < List.length b)%nat.
Proof.
  intros c nt b r H. unfold decode_val in H.
  destruct (read_int c b) as [id r0| | | |] eqn:E; try discriminate.
  apply read_int_consumes in E.
  destruct (read_uvarint r0) as [t r1| | |] eqn:U; try discriminate.
  apply read_uvarint_ok in U. destruct U as [_ U].
  set (n := if t =? 0 then -1 else wrap64 (t - 1)) in *.
  assert (D : forall r2, (if id <? 0 then RPanic else if val_type_ok nt id then ROk r2 else RErr EValType) = ROk r ->
                         r2 = r).
  { intros r2 Q. destruct (id <? 0); [discriminate|]. destruct (val_type_ok nt id); [|discriminate]. congruence. }
  destruct (0 <? n).
  - destruct (n <=? blen r1).
    + apply D in H. subst. unfold drop. rewrite skipn_length. lia.
    + destruct r1; [|discriminate]. apply D in H. subst. simpl in *. lia.
  - apply D in H. subst. lia.
Qed.

Theorem values_fuel_enough : forall c fuel nt k b,
  (List.length b < fuel)%nat -> values c fuel nt k b <> RErr EFuel.
Proof.
  induction fuel as [|f IH]; intros nt k b L; [lia|].
  destruct b as [|x r]; simpl; [discriminate|].
  destruct (decode_val c nt (x :: r)) as [r'|e| |] eqn:D; try discriminate.
  - apply decode_val_consumes in D. apply IH. simpl in *. lia.
  - unfold decode_val in D.
    destruct (read_int c (x :: r)) as [id r0| | | |]; try (inversion D; discriminate).
    destruct (read_uvarint r0) as [t r1| | |]; try (inversion D; discriminate).
    destruct (0 <? (if t =? 0 then -1 else wrap64 (t - 1))).
    + destruct ((if t =? 0 then -1 else wrap64 (t - 1)) <=? blen r1).
      * destruct (id <? 0); [discriminate|]. destruct (val_type_ok nt id); inversion D; discriminate.
      * destruct r1; [|inversion D; discriminate].
        destruct (id <? 0); [discriminate|]. destruct (val_type_ok nt id); inversion D; discriminate.
    + destruct (id <? 0); [discriminate|]. destruct (val_type_ok nt id); inversion D; discriminate.
Qed.

(* ---------- progress of every loop: typedefs, frames, the whole stream ---------- *)

Lemma drop_len : forall n (b : bytes), (List.length (drop n b) <= List.length b)%nat.
Proof. intros. unfold drop. rewrite skipn_length. lia. Qed.

Lemma counted_string_spec : forall c b,
  match counted_string c b with
  | ROk r => (List.length r < List.length b)%nat
  | RErr e => e = EBadFormat
  | REof => False
  | RPanic => True
  end.
Proof.
  intros c b. unfold counted_string.
  destruct (read_int c b) as [n r| | | |] eqn:E; auto.
  apply read_int_consumes in E.
  destruct (n <? 0); auto. destruct (blen r <? n); auto.
  pose proof (drop_len n r). lia.
Qed.

Lemma type_id_spec : forall c nt b,
  match type_id c nt b with
  | ROk r => (List.length r < List.length b)%nat
  | RErr e => e <> EFuel
  | REof => False
  | RPanic => False
  end.
Proof.
  intros c nt b. unfold type_id.
  destruct (read_int c b) as [n r| | | |] eqn:E; try discriminate.
  apply read_int_consumes in E. destruct (lookup_type nt n); [exact E|discriminate].
Qed.

Definition loop_ok (b : bytes) (x : res bytes) : Prop :=
  match x with
  | ROk r => (List.length r <= List.length b)%nat
  | RErr e => e <> EFuel
  | _ => True
  end.

Lemma fields_loop_spec : forall c fuel k nt b,
  (List.length b < fuel)%nat -> loop_ok b (fields_loop c fuel k nt b).
Proof.
  induction fuel as [|f IH]; intros k nt b L; [lia|].
  simpl. destruct (k <=? 0); [simpl; lia|].
  pose proof (counted_string_spec c b) as C.
  destruct (counted_string c b) as [r|e| |]; simpl; auto; [|subst; discriminate].
  pose proof (type_id_spec c nt r) as T.
  destruct (type_id c nt r) as [r'|e| |]; simpl; auto.
  assert (L' : (List.length r' < f)%nat) by lia.
  specialize (IH (k - 1) nt r' L'). unfold loop_ok in *.
  destruct (fields_loop c f (k - 1) nt r'); auto. lia.
Qed.

Lemma ids_loop_spec : forall c fuel k nt b,
  (List.length b < fuel)%nat -> loop_ok b (ids_loop c fuel k nt b).
Proof.
  induction fuel as [|f IH]; intros k nt b L; [lia|].
  simpl. destruct (k <=? 0); [simpl; lia|].
  pose proof (type_id_spec c nt b) as T.
  destruct (type_id c nt b) as [r'|e| |]; simpl; auto.
  assert (L' : (List.length r' < f)%nat) by lia.
  specialize (IH (k - 1) nt r' L'). unfold loop_ok in *.
  destruct (ids_loop c f (k - 1) nt r'); auto. lia.
Qed.

Lemma syms_loop_spec : forall c fuel k b,
  (List.length b < fuel)%nat -> loop_ok b (syms_loop c fuel k b).
Proof.
  induction fuel as [|f IH]; intros k b L; [lia|].
  simpl. destruct (k <=? 0); [simpl; lia|].
  pose proof (counted_string_spec c b) as C.
  destruct (counted_string c b) as [r|e| |]; simpl; auto; [|subst; discriminate].
  assert (L' : (List.length r < f)%nat) by lia.
  specialize (IH (k - 1) r L'). unfold loop_ok in *.
  destruct (syms_loop c f (k - 1) r); auto. lia.
Qed.

Lemma count_spec : forall c b,
  match count c b with
  | ROk (n, r) => (List.length r < List.length b)%nat
  | RErr e => e <> EFuel
  | _ => False
  end.
Proof.
  intros c b. unfold count. destruct (read_int c b) as [n r| | | |] eqn:E; try discriminate.
  apply read_int_consumes in E. exact E.
Qed.

Opaque fields_loop ids_loop syms_loop.
Lemma typedef_spec : forall c nt code b, loop_ok b (typedef c nt code b).
Proof.
  intros c nt code b. unfold typedef.
  destruct (code =? 0).
  { pose proof (count_spec c b) as C. destruct (count c b) as [[n r]|e| |]; simpl in *; auto.
    pose proof (fields_loop_spec c (S (List.length b)) n nt r) as F.
    assert (L : (List.length r < S (List.length b))%nat) by lia. specialize (F L).
    unfold loop_ok in *. destruct (fields_loop c (S (List.length b)) n nt r); auto. lia. }
  destruct ((code =? 1) || (code =? 2) || (code =? 6))%bool.
  { pose proof (type_id_spec c nt b) as T. destruct (type_id c nt b); simpl in *; auto. lia. }
  destruct (code =? 3).
  { pose proof (type_id_spec c nt b) as T. destruct (type_id c nt b) as [r|e| |]; simpl in *; auto.
    pose proof (type_id_spec c nt r) as T2. destruct (type_id c nt r); simpl in *; auto. lia. }
  destruct (code =? 4).
  { pose proof (count_spec c b) as C. destruct (count c b) as [[n r]|e| |]; simpl in *; auto.
    destruct (n =? 0); [simpl; discriminate|].
    pose proof (ids_loop_spec c (S (List.length b)) n nt r) as F.
    assert (L : (List.length r < S (List.length b))%nat) by lia. specialize (F L).
    unfold loop_ok in *. destruct (ids_loop c (S (List.length b)) n nt r); auto. lia. }
  destruct (code =? 5).
  { pose proof (count_spec c b) as C. destruct (count c b) as [[n r]|e| |]; simpl in *; auto.
    pose proof (syms_loop_spec c (S (List.length b)) n r) as F.
    assert (L : (List.length r < S (List.length b))%nat) by lia. specialize (F L).
    unfold loop_ok in *. destruct (syms_loop c (S (List.length b)) n r); auto. lia. }
  destruct (code =? 7); [|simpl; discriminate].
  pose proof (counted_string_spec c b) as C.
  destruct (counted_string c b) as [r|e| |]; simpl; auto; [|subst; discriminate].
  pose proof (type_id_spec c nt r) as T. destruct (type_id c nt r); simpl in *; auto. lia.
Qed.

Transparent fields_loop ids_loop syms_loop.

Theorem typedefs_fuel_enough : forall c fuel nt b,
  (List.length b < fuel)%nat -> typedefs c fuel nt b <> RErr EFuel.
Proof.
  induction fuel as [|f IH]; intros nt b L; [lia|].
  destruct b as [|x r]; simpl; [discriminate|].
  pose proof (typedef_spec c nt (Z.of_N x) r) as T.
  destruct (typedef c nt (Z.of_N x) r) as [r'|e| |]; simpl in *; try discriminate.
  - apply IH. lia.
  - congruence.
Qed.

(* ---- frames consume input; their errors are never the fuel marker ---- *)

Definition pay_ok (b : bytes) (x : res (bytes * bytes)) : Prop :=
  match x with
  | ROk (_, r) => (List.length r <= List.length b)%nat
  | RErr e => e <> EFuel
  | _ => True
  end.

Lemma peek_read_spec : forall max n b, pay_ok b (peek_read max n b).
Proof.
  intros max n b. unfold peek_read, pay_ok.
  destruct (n <? 0); [discriminate|]. destruct (n <=? blen b); [apply drop_len|].
  destruct (max <? n); [discriminate|]. destruct b; [exact I|discriminate].
Qed.

Lemma decode_length_spec : forall c code b,
  match decode_length c code b with
  | ROk (_, r) => (List.length r < List.length b)%nat
  | RErr e => e <> EFuel
  | _ => True
  end.
Proof.
  intros c code b. unfold decode_length.
  destruct (read_int c b) as [v r| | | |] eqn:E; try discriminate; auto.
  apply read_int_consumes in E. exact E.
Qed.

Lemma read_frame_spec : forall c max code b, pay_ok b (read_frame c max code b).
Proof.
  intros c max code b. unfold read_frame.
  pose proof (decode_length_spec c code b) as D.
  destruct (decode_length c code b) as [[size r]|e| |]; simpl; auto.
  destruct (max <? size); [simpl; discriminate|].
  pose proof (peek_read_spec max size r) as P.
  destruct (peek_read max size r) as [[p r']|e| |]; simpl in *; auto; [lia|].
  destruct e; simpl; auto; discriminate.
Qed.

Lemma read_comp_header_spec : forall c max code b,
  match read_comp_header c max code b with
  | ROk (_, _, _, r) => (List.length r <= List.length b)%nat
  | RErr e => e <> EFuel
  | _ => True
  end.
Proof.
  intros c max code b. unfold read_comp_header.
  pose proof (decode_length_spec c code b) as D.
  destruct (decode_length c code b) as [[n r]|e| |]; simpl; auto.
  destruct r as [|f r1]; [exact I|].
  destruct (read_int c r1) as [size r2| | | |] eqn:E; try discriminate; auto.
  apply read_int_consumes in E.
  destruct (max <? size); [discriminate|].
  pose proof (peek_read_spec max (wrap64 (n - (1 + size_of_uvarint (size mod two64)))) r2) as P.
  destruct (peek_read max _ r2) as [[z r3]|e| |]; simpl in *.
  - destruct (size <? 0); [exact I|]. lia.
  - destruct e; discriminate.
  - destruct (size <? 0); [exact I|]. lia.
  - exact I.
Qed.

Lemma read_payload_spec : forall lz4 c max code b, pay_ok b (read_payload lz4 c max code b).
Proof.
  intros lz4 c max code b. unfold read_payload.
  destruct ((code / 64) mod 2 =? 1); [|apply read_frame_spec].
  pose proof (read_comp_header_spec c max code b) as H.
  destruct (read_comp_header c max code b) as [[[[f s] z] r]|e| |]; simpl; auto.
  unfold decompress. destruct (negb (f =? 0)); [simpl; discriminate|].
  destruct (lz4 z s); simpl; [exact H|discriminate].
Qed.

Opaque typedefs values read_payload.
Theorem stream_fuel_enough : forall lz4 c max fuel nt nv sm b,
  (List.length b < fuel)%nat -> out (stream lz4 c max fuel nt nv sm b) <> Err EFuel.
Proof.
  induction fuel as [|f IH]; intros nt nv sm b L; [lia|].
  destruct b as [|x r]; simpl; [discriminate|]. simpl in L.
  assert (Lr : (List.length r < f)%nat) by lia.
  destruct (Z.of_N x =? 255); [apply IH; exact Lr|].
  destruct (128 <=? Z.of_N x); [simpl; discriminate|].
  destruct ((Z.of_N x / 16) mod 4 =? 3); [simpl; discriminate|].
  pose proof (read_payload_spec lz4 c max (Z.of_N x) r) as P.
  destruct (read_payload lz4 c max (Z.of_N x) r) as [[p r']|e| |]; simpl in *; try discriminate; [|congruence].
  assert (Lr' : (List.length r' < f)%nat) by lia.
  destruct ((Z.of_N x / 16) mod 4 =? 0).
  { pose proof (typedefs_fuel_enough c (S (List.length p)) nt p) as T.
    destruct (typedefs c (S (List.length p)) nt p) as [nt'|e| |]; simpl; try discriminate; [apply IH; exact Lr'|].
    intros Q. inversion Q; subst. apply T; [lia|reflexivity]. }
  destruct ((Z.of_N x / 16) mod 4 =? 1).
  { pose proof (values_fuel_enough c (S (List.length p)) nt 0%N p) as V.
    destruct (values c (S (List.length p)) nt 0%N p) as [k|e| |]; simpl; try discriminate; [apply IH; exact Lr'|].
    intros Q. inversion Q; subst. apply V; [lia|reflexivity]. }
  destruct p; [simpl; discriminate|apply IH; exact Lr'].
Qed.
Transparent typedefs values read_payload.

(* the reader of the model always terminates by consuming its input: the
   explicit fuel of [parse] is never what stops it *)
Theorem parse_never_out_of_fuel : forall lz4 c max b, out (parse lz4 c max b) <> Err EFuel.
Proof. intros. unfold parse. apply stream_fuel_enough. lia. Qed.

Theorem zng_never_out_of_fuel : forall lz4 max b, out (zng_parse lz4 max b) <> Err EFuel.
Proof. intros. apply parse_never_out_of_fuel. Qed.

(* every run of the reader ends in decoded values or an error *)
Theorem zng_total : forall lz4 max b,
  (exists n, out (zng_parse lz4 max b) = Ok n) \/
  (exists e, out (zng_parse lz4 max b) = Err e /\ e <> EFuel).
Proof.
  intros lz4 max b.
  pose proof (zng_no_panic lz4 max b) as P. pose proof (zng_never_out_of_fuel lz4 max b) as F.
  destruct (out (zng_parse lz4 max b)) as [n|e|].
  - left. exists n. reflexivity.
  - right. exists e. split; [reflexivity|congruence].
  - congruence.
Qed.
