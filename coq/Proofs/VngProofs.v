(* C03  Proofs about the VNG model (Model/Vng.v): every layer of the writer is
   inverted by both readers. *)
From ZV Require Import Base.Prelude Model.Vng.
From Coq Require Import Permutation Sorted ZifyN ZifyNat ZifyBool.
Local Open Scope N_scope.

(* ------------------------------------------------------------------ *)
(* generic list facts *)

Lemma fold_left_snoc {A B} (f : A -> B -> A) l x a :
  fold_left f (l ++ [x]) a = f (fold_left f l a) x.
Proof. rewrite fold_left_app. reflexivity. Qed.

Lemma repeat_snoc {A} (x : A) n : repeat x (S n) = repeat x n ++ [x].
Proof. induction n as [|n IH]; simpl; [reflexivity|]. simpl in IH. rewrite <- IH. reflexivity. Qed.

Lemma all_some_map_Some {A B} (f : A -> option B) (g : A -> B) l :
  (forall x, In x l -> f x = Some (g x)) -> all_some (map f l) = Some (map g l).
Proof.
  induction l as [|x l IH]; intros H; simpl; [reflexivity|].
  rewrite (H x (or_introl eq_refl)). rewrite IH; [reflexivity|].
  intros y Hy. apply H. right. exact Hy.
Qed.

(* ------------------------------------------------------------------ *)
(* null run lengths *)

Lemma expand_app p l1 l2 :
  expand p (l1 ++ l2) = expand p l1 ++ expand (xorb p (Nat.odd (List.length l1))) l2.
Proof.
  revert p. induction l1 as [|r l1 IH]; intros p; simpl.
  - destruct p; reflexivity.
  - rewrite IH, <- app_assoc. f_equal. f_equal.
    rewrite Nat.odd_succ, <- Nat.negb_odd. destruct p, (Nat.odd (List.length l1)); reflexivity.
Qed.

Definition count_true (bits : list bool) : N := nlen (filter (fun b => b) bits).

Record ninv (s : nstate) (bits : list bool) : Prop := {
  ni_expand : expand false (ns_runs s ++ [ns_run s]) = bits;
  ni_pol : ns_null s = Nat.odd (List.length (ns_runs s));
  ni_count : ns_count s = count_true bits
}.

Lemma count_true_snoc bits b :
  count_true (bits ++ [b]) = (count_true bits + if b then 1 else 0)%N.
Proof.
  unfold count_true, nlen. rewrite filter_app, app_length. simpl. destruct b; simpl; lia.
Qed.

Lemma odd_snoc {A} (l : list A) (x : A) : Nat.odd (List.length (l ++ [x])) = negb (Nat.odd (List.length l)).
Proof. rewrite app_length. simpl. rewrite Nat.add_1_r, Nat.odd_succ, <- Nat.negb_odd. reflexivity. Qed.

Lemma ninv_step s bits b : ninv s bits -> ninv (nulls_write s b) (bits ++ [b]).
Proof.
  intros [He Hp Hc].
  rewrite expand_app, Bool.xorb_false_l in He. simpl in He. rewrite app_nil_r in He. rewrite <- Hp in He.
  assert (Hsame : expand false (ns_runs s ++ [ns_run s + 1]) = bits ++ [ns_null s]).
  { rewrite expand_app, Bool.xorb_false_l. simpl. rewrite app_nil_r, <- Hp.
    replace (N.to_nat (ns_run s + 1)) with (S (N.to_nat (ns_run s))) by lia.
    rewrite repeat_snoc, app_assoc, He. reflexivity. }
  assert (Hflip : expand false ((ns_runs s ++ [ns_run s]) ++ [1]) = bits ++ [negb (ns_null s)]).
  { rewrite expand_app, Bool.xorb_false_l. rewrite odd_snoc, <- Hp. simpl. try rewrite app_nil_r.
    rewrite expand_app, Bool.xorb_false_l. simpl. try rewrite app_nil_r. rewrite <- Hp, He. reflexivity. }
  unfold nulls_write, touch_null, touch_value.
  destruct b; destruct (ns_null s) eqn:Hn; constructor; simpl;
    try (rewrite count_true_snoc; rewrite Hc; lia);
    try exact Hsame; try exact Hflip; try exact Hp;
    rewrite odd_snoc, <- Hp; reflexivity.
Qed.

Lemma ninv_state bits : ninv (nulls_state bits) bits.
Proof.
  unfold nulls_state. induction bits as [|b bits IH] using rev_ind.
  - constructor; reflexivity.
  - rewrite fold_left_snoc. apply ninv_step. exact IH.
Qed.

Lemma nulls_finish_expand bits runs :
  nulls_finish (nulls_state bits) = Some runs -> expand false runs = bits.
Proof.
  destruct (ninv_state bits) as [He _ _]. unfold nulls_finish.
  destruct (ns_count (nulls_state bits) =? 0); [discriminate|].
  destruct (0 <? ns_run (nulls_state bits)) eqn:Hr; intros E; inversion E; subst; [exact He|].
  rewrite expand_app in He. apply N.ltb_ge in Hr.
  replace (ns_run (nulls_state bits)) with 0 in He by lia. simpl in He.
  rewrite app_nil_r in He. exact He.
Qed.

Lemma count_true_zero bits : count_true bits = 0 <-> forallb negb bits = true.
Proof.
  unfold count_true, nlen. induction bits as [|b bits IH]; simpl; [tauto|].
  destruct b; simpl; [split; [lia|discriminate]|exact IH].
Qed.

(* no Nulls node is written iff no value is null *)
Lemma nulls_finish_none bits :
  nulls_finish (nulls_state bits) = None <-> forallb negb bits = true.
Proof.
  destruct (ninv_state bits) as [_ _ Hc]. unfold nulls_finish. rewrite <- count_true_zero, <- Hc.
  destruct (ns_count (nulls_state bits) =? 0) eqn:E.
  - apply N.eqb_eq in E. tauto.
  - apply N.eqb_neq in E. split; [discriminate|contradiction].
Qed.

Lemma nulls_finish_count bits runs :
  nulls_finish (nulls_state bits) = Some runs -> ns_count (nulls_state bits) = count_true bits.
Proof. intros _. apply (ninv_state bits). Qed.

(* vector path: the bitmap built from the runs *)
Theorem nulls_runs_roundtrip_vec bits runs :
  nulls_finish (nulls_state bits) = Some runs -> nulls_vec runs (List.length bits) = Some bits.
Proof.
  intros H. apply nulls_finish_expand in H. unfold nulls_vec. rewrite H.
  rewrite Nat.leb_refl, Nat.sub_diag. simpl. rewrite app_nil_r. reflexivity.
Qed.

(* row path: NullsBuilder *)
Lemma nb_skip_spec runs : forall null,
  match nb_skip runs null with
  | None => expand (negb null) runs = []
  | Some (v, r, nl) => v <> 0 /\ expand (negb null) runs = repeat nl (N.to_nat v) ++ expand (negb nl) r
  end.
Proof.
  induction runs as [|v r IH]; intros null; simpl; [reflexivity|].
  destruct (v =? 0) eqn:E.
  - apply N.eqb_eq in E. subst. simpl. specialize (IH (negb null)). exact IH.
  - apply N.eqb_neq in E. split; [exact E|reflexivity].
Qed.

Lemma nb_read_stream n : forall runs null run,
  (n <= List.length (repeat null (N.to_nat run) ++ expand (negb null) runs))%nat ->
  nb_read n (runs, null, run) = Some (firstn n (repeat null (N.to_nat run) ++ expand (negb null) runs)).
Proof.
  induction n as [|n IH]; intros runs null run Hn; [reflexivity|].
  simpl nb_read. unfold nb_build. destruct (run =? 0) eqn:E.
  - apply N.eqb_eq in E. subst. simpl in Hn |- *.
    pose proof (nb_skip_spec runs null) as HS. destruct (nb_skip runs null) as [[[v r] nl]|].
    + destruct HS as [Hv HS]. rewrite HS in Hn |- *.
      replace (N.to_nat v) with (S (N.to_nat (v - 1))) in Hn |- * by lia.
      simpl in Hn |- *. rewrite IH by lia. reflexivity.
    + rewrite HS in Hn. simpl in Hn. lia.
  - apply N.eqb_neq in E.
    replace (N.to_nat run) with (S (N.to_nat (run - 1))) in Hn |- * by lia.
    simpl in Hn |- *. rewrite IH by lia. reflexivity.
Qed.

Theorem nulls_runs_roundtrip_row bits runs :
  nulls_finish (nulls_state bits) = Some runs -> nulls_row runs (List.length bits) = Some bits.
Proof.
  intros H. apply nulls_finish_expand in H. unfold nulls_row.
  rewrite nb_read_stream; simpl; rewrite H; [|lia]. rewrite firstn_all. reflexivity.
Qed.

(* ------------------------------------------------------------------ *)
(* dictionary / const / plain *)

Definition keys (d : dict) : list bytes := map fst d.

Lemma dict_add_in_new d k : In k (keys (dict_add d k)).
Proof.
  induction d as [|[k' c] d IH]; simpl; [left; reflexivity|].
  destruct (bytes_eqb k k') eqn:E; simpl.
  - apply bytes_eqb_eq in E. left. symmetry. exact E.
  - right. exact IH.
Qed.

Lemma dict_add_in_old d k x : In x (keys d) -> In x (keys (dict_add d k)).
Proof.
  induction d as [|[k' c] d IH]; simpl; [tauto|].
  destruct (bytes_eqb k k'); simpl; intros [H|H]; auto.
Qed.

Lemma fold_pe_none m vals : fold_left (pe_update m) vals None = None.
Proof. induction vals; simpl; auto. Qed.

Lemma pe_fold_inv m vals : forall d0 d,
  (List.length d0 <= m)%nat ->
  fold_left (pe_update m) vals (Some d0) = Some d ->
  (forall v, In v vals -> In v (keys d)) /\ (forall x, In x (keys d0) -> In x (keys d)) /\ (List.length d <= m)%nat.
Proof.
  induction vals as [|v vals IH]; intros d0 d H0 H; simpl in H.
  - inversion H; subst. repeat split; auto. intros v [].
  - destruct (Nat.ltb m (List.length (dict_add d0 v))) eqn:E.
    + rewrite fold_pe_none in H. discriminate.
    + apply Nat.ltb_ge in E. destruct (IH _ _ E H) as (A & B & C). repeat split; auto.
      * intros x [Hx|Hx]; [subst; apply B, dict_add_in_new|apply A, Hx].
      * intros x Hx. apply B, dict_add_in_old, Hx.
Qed.

Lemma pe_state_inv m small vals d :
  pe_state m small vals = Some d -> (forall v, In v vals -> In v (keys d)) /\ (List.length d <= m)%nat.
Proof.
  unfold pe_state, pe_init. destruct small; [rewrite fold_pe_none; discriminate|].
  intros H. apply pe_fold_inv in H; [tauto|simpl; lia].
Qed.

(* the converse bound: the dictionary is dropped exactly when more than
   [maxdict] distinct values were seen *)
Lemma dict_add_keys_incl d k x : In x (keys (dict_add d k)) -> x = k \/ In x (keys d).
Proof.
  induction d as [|[k' c] d IH]; simpl; [intros [H|[]]; auto|].
  destruct (bytes_eqb k k'); simpl; intros [H|H]; auto. destruct (IH H); auto.
Qed.

Lemma dict_add_nodup d k : NoDup (keys d) -> NoDup (keys (dict_add d k)).
Proof.
  induction d as [|[k' c] d IH]; simpl; intros H; [constructor; [intros []|constructor]|].
  destruct (bytes_eqb k k') eqn:E; simpl; [exact H|].
  inversion H as [|? ? Hn Hd]; subst. constructor; [|apply IH, Hd].
  intros Hin. apply dict_add_keys_incl in Hin as [Hin|Hin]; [|contradiction].
  subst. rewrite (proj2 (bytes_eqb_eq k k) eq_refl) in E. discriminate.
Qed.

Lemma pe_fold_distinct m vals : forall d0,
  NoDup (keys d0) ->
  match fold_left (pe_update m) vals (Some d0) with
  | Some d => NoDup (keys d) /\ (forall x, In x (keys d) -> In x (keys d0) \/ In x vals)
  | None => exists l, NoDup l /\ (forall x, In x l -> In x (keys d0) \/ In x vals) /\ (m < List.length l)%nat
  end.
Proof.
  induction vals as [|v vals IH]; intros d0 H0; simpl; [split; auto|].
  destruct (Nat.ltb m (List.length (dict_add d0 v))) eqn:E.
  - rewrite fold_pe_none. apply Nat.ltb_lt in E. exists (keys (dict_add d0 v)). split; [apply dict_add_nodup, H0|].
    split; [|unfold keys; rewrite map_length; exact E].
    intros x Hx. apply dict_add_keys_incl in Hx as [Hx|Hx]; [right; left; auto|left; exact Hx].
  - specialize (IH (dict_add d0 v) (dict_add_nodup _ _ H0)).
    destruct (fold_left (pe_update m) vals (Some (dict_add d0 v))) as [d|].
    + destruct IH as [A B]. split; [exact A|]. intros x Hx. destruct (B x Hx) as [Hk|Hk]; [|right; right; exact Hk].
      apply dict_add_keys_incl in Hk as [Hk|Hk]; [right; left; auto|left; exact Hk].
    + destruct IH as (l & A & B & C). exists l. repeat split; auto. intros x Hx. destruct (B x Hx) as [Hk|Hk]; [|right; right; exact Hk].
      apply dict_add_keys_incl in Hk as [Hk|Hk]; [right; left; auto|left; exact Hk].
Qed.

Lemma index_of_nth k l : In k l -> nth_error l (index_of k l) = Some k /\ (index_of k l < List.length l)%nat.
Proof.
  induction l as [|x l IH]; simpl; [intros []|].
  destruct (bytes_eqb k x) eqn:E.
  - apply bytes_eqb_eq in E. subst. intros _. split; [reflexivity|lia].
  - intros [H|H]; [subst; rewrite (proj2 (bytes_eqb_eq k k) eq_refl) in E; discriminate|].
    destruct (IH H). split; [assumption|lia].
Qed.

Lemma all_in_singleton (k : bytes) vals : (forall v, In v vals -> In v [k]) -> vals = repeat k (List.length vals).
Proof.
  induction vals as [|v vals IH]; intros H; simpl; [reflexivity|].
  destruct (H v (or_introl eq_refl)) as [E|[]]. subst. f_equal. apply IH. intros x Hx. apply H. right. exact Hx.
Qed.

Lemma prim_len_encode os om m small vals : prim_len (prim_encode os om m small vals) = nlen vals.
Proof.
  unfold prim_encode, pe_finish. destruct (pe_state m small vals) as [[|[k c] [|e d]]|]; reflexivity.
Qed.

Lemma pe_fold_nodup m vals (d0 d : dict) :
  NoDup (keys d0) -> fold_left (pe_update m) vals (Some d0) = Some d -> NoDup (keys d).
Proof. intros H0 E. pose proof (pe_fold_distinct m vals d0 H0) as D. rewrite E in D. apply D. Qed.

Lemma pe_state_nodup m small vals d : pe_state m small vals = Some d -> NoDup (keys d).
Proof.
  unfold pe_state, pe_init. destruct small; [rewrite fold_pe_none; discriminate|].
  apply (pe_fold_nodup m vals []). constructor.
Qed.

Section PrimRoundtrip.
  Variables order_sel order_meta : dict -> dict.
  (* both makeDict calls return a permutation of the entries ... *)
  Hypothesis order_sel_perm : forall d, Permutation (order_sel d) d.
  (* ... and, on a dictionary (distinct keys), the same one *)
  Hypothesis orders_agree : forall d, NoDup (keys d) -> order_meta d = order_sel d.

  Lemma prim_roundtrip_gen maxdict small vals :
    (maxdict <= 256)%nat ->
    prim_decode (prim_encode order_sel order_meta maxdict small vals) = Some vals.
  Proof.
    intros Hm. unfold prim_encode, pe_finish.
    destruct (pe_state maxdict small vals) as [d|] eqn:Hs; [|reflexivity].
    pose proof (pe_state_nodup _ _ _ _ Hs) as Hnd.
    apply pe_state_inv in Hs as [Hin Hlen].
    destruct d as [|[k c] [|e d']]; [reflexivity| |].
    - simpl. unfold nlen. rewrite Nat2N.id. f_equal. symmetry. apply all_in_singleton. exact Hin.
    - set (d := (k, c) :: e :: d') in *. simpl prim_decode. rewrite (orders_agree d Hnd).
      rewrite map_map. rewrite (all_some_map_Some _ (fun v => v)); [rewrite map_id; reflexivity|].
      intros v Hv. unfold selector.
      assert (Hk : In v (map fst (order_sel d))).
      { apply Permutation_in with (l := keys d); [|apply Hin, Hv].
        apply Permutation_map, Permutation_sym, order_sel_perm. }
      destruct (index_of_nth _ _ Hk) as [Hn Hl]. rewrite map_length in Hl.
      rewrite (Permutation_length (order_sel_perm d)) in Hl.
      rewrite N.mod_small by lia. rewrite Nat2N.id. exact Hn.
  Qed.
End PrimRoundtrip.

(* the encoding chosen, in terms of the distinct values written: the dictionary
   survives iff at most [maxdict] distinct values were seen (then it holds exactly
   the distinct values); const = exactly one entry *)
Lemma pe_fold_distinct_some m vals (d0 d : dict) :
  NoDup (keys d0) -> fold_left (pe_update m) vals (Some d0) = Some d ->
  NoDup (keys d) /\ (forall x, In x (keys d) -> In x (keys d0) \/ In x vals).
Proof. intros H0 E. pose proof (pe_fold_distinct m vals d0 H0) as D. rewrite E in D. exact D. Qed.

Lemma pe_fold_distinct_none m vals (d0 : dict) :
  NoDup (keys d0) -> fold_left (pe_update m) vals (Some d0) = None ->
  exists l, NoDup l /\ (forall x, In x l -> In x (keys d0) \/ In x vals) /\ (m < List.length l)%nat.
Proof. intros H0 E. pose proof (pe_fold_distinct m vals d0 H0) as D. rewrite E in D. exact D. Qed.

Theorem dict_kept_iff_few_distinct maxdict vals :
  match pe_state maxdict false vals with
  | Some d => NoDup (keys d) /\ (forall v, In v vals <-> In v (keys d)) /\ (List.length d <= maxdict)%nat
  | None => exists l, NoDup l /\ (forall x, In x l -> In x vals) /\ (maxdict < List.length l)%nat
  end.
Proof.
  unfold pe_state, pe_init.
  destruct (fold_left (pe_update maxdict) vals (Some [])) as [d|] eqn:E.
  - destruct (pe_fold_distinct_some maxdict vals [] d (NoDup_nil _) E) as [A B].
    apply pe_fold_inv in E as (I1 & _ & I3); [|simpl; lia].
    split; [exact A|]. split; [|exact I3]. intros v. split; [apply I1|].
    intros Hv. destruct (B v Hv) as [[]|]; assumption.
  - destruct (pe_fold_distinct_none maxdict vals [] (NoDup_nil _) E) as (l & A & B & C).
    exists l. repeat split; auto. intros x Hx. destruct (B x Hx) as [[]|]; assumption.
Qed.

(* ------------------------------------------------------------------ *)
(* nullable primitive column *)

Lemma merge_spec l : merge (map is_null l) (somes l) = Some l.
Proof.
  induction l as [|[v|] l IH]; simpl; [reflexivity| |]; rewrite IH; reflexivity.
Qed.

Lemma no_nulls_somes l : forallb negb (map is_null l) = true -> map Some (somes l) = l.
Proof.
  induction l as [|[v|] l IH]; simpl; intros H; [reflexivity| |discriminate].
  rewrite IH by exact H. reflexivity.
Qed.

Lemma count_split_nat l :
  (List.length (filter (fun b => b) (map is_null l)) + List.length (somes l) = List.length l)%nat.
Proof. induction l as [|[v|] l IH]; simpl; lia. Qed.

Lemma count_split l : (N.to_nat (count_true (map is_null l) + nlen (somes l)) = List.length (map is_null l))%nat.
Proof.
  unfold count_true, nlen. rewrite map_length. pose proof (count_split_nat l). lia.
Qed.

Section ColumnRoundtrip.
  Variables order_sel order_meta : dict -> dict.
  Hypothesis order_sel_perm : forall d, Permutation (order_sel d) d.
  Hypothesis orders_agree : forall d, NoDup (keys d) -> order_meta d = order_sel d.

  Lemma column_roundtrip_gen vec maxdict small (l : list body) :
    (maxdict <= 256)%nat ->
    col_decode vec (col_encode_gen order_sel order_meta maxdict small l) = Some l.
  Proof.
    intros Hm. unfold col_encode_gen.
    pose proof (prim_roundtrip_gen order_sel order_meta order_sel_perm orders_agree maxdict small (somes l) Hm) as HP.
    destruct (nulls_finish (nulls_state (map is_null l))) as [runs|] eqn:HF.
    - simpl. rewrite prim_len_encode, HP.
      rewrite (nulls_finish_count _ _ HF), count_split.
      rewrite (nulls_runs_roundtrip_vec _ _ HF), (nulls_runs_roundtrip_row _ _ HF).
      destruct vec; apply merge_spec.
    - simpl. rewrite HP. apply nulls_finish_none in HF. rewrite (no_nulls_somes _ HF). reflexivity.
  Qed.
End ColumnRoundtrip.

(* ------------------------------------------------------------------ *)
(* dynamic: top-level types interleaved *)

Lemma which_add_in w t : In t (which_add w t).
Proof.
  induction w as [|x w IH]; simpl; [left; reflexivity|].
  destruct (x =? t) eqn:E; [apply N.eqb_eq in E; subst; left; reflexivity|right; exact IH].
Qed.

Lemma which_add_keep w t x : In x w -> In x (which_add w t).
Proof.
  induction w as [|y w IH]; simpl; [tauto|].
  destruct (y =? t); simpl; intros [H|H]; auto.
Qed.

Lemma which_add_incl w t x : In x (which_add w t) -> x = t \/ In x w.
Proof.
  induction w as [|y w IH]; simpl; [intros [H|[]]; auto|].
  destruct (y =? t); simpl; intros [H|H]; auto. destruct (IH H); auto.
Qed.

Lemma which_add_nodup w t : NoDup w -> NoDup (which_add w t).
Proof.
  induction w as [|y w IH]; simpl; intros H; [constructor; [intros []|constructor]|].
  destruct (y =? t) eqn:E; [exact H|].
  inversion H as [|? ? Hn Hd]; subst. constructor; [|apply IH, Hd].
  intros Hin. apply which_add_incl in Hin as [Hin|Hin]; [|contradiction].
  subst. rewrite N.eqb_refl in E. discriminate.
Qed.

Lemma which_fold ts : forall w, NoDup w ->
  NoDup (fold_left which_add ts w) /\ (forall t, In t ts \/ In t w -> In t (fold_left which_add ts w)).
Proof.
  induction ts as [|t ts IH]; intros w Hw; simpl; [split; [exact Hw|intros t [[]|H]; exact H]|].
  destruct (IH _ (which_add_nodup w t Hw)) as [A B]. split; [exact A|].
  intros x [[Hx|Hx]|Hx]; apply B.
  - subst. right. apply which_add_in.
  - left. exact Hx.
  - right. apply which_add_keep, Hx.
Qed.

Lemma which_spec vs : NoDup (which vs) /\ (forall v, In v vs -> In (fst v) (which vs)).
Proof.
  unfold which. destruct (which_fold (map fst vs) [] (NoDup_nil _)) as [A B]. split; [exact A|].
  intros v Hv. apply B. left. apply in_map, Hv.
Qed.

Lemma tag_of_nth w t : In t w -> nth_error w (tag_of w t) = Some t.
Proof.
  induction w as [|x w IH]; simpl; [intros []|].
  destruct (x =? t) eqn:E; [apply N.eqb_eq in E; subst; reflexivity|].
  intros [H|H]; [subst; rewrite N.eqb_refl in E; discriminate|apply IH, H].
Qed.

Lemma column_of_cons_same t v vs : fst v = t -> column_of t (v :: vs) = snd v :: column_of t vs.
Proof. intros E. subst t. unfold column_of, value, tyid in *. cbn [filter]. rewrite N.eqb_refl. reflexivity. Qed.

Lemma column_of_cons_other t v vs : fst v <> t -> column_of t (v :: vs) = column_of t vs.
Proof. intros E. unfold column_of, value, tyid in *. cbn [filter]. apply N.eqb_neq in E. rewrite E. reflexivity. Qed.

Lemma columns_other w v vs : ~ In (fst v) w ->
  map (fun t => column_of t (v :: vs)) w = map (fun t => column_of t vs) w.
Proof.
  intros H. apply map_ext_in. intros t Ht. apply column_of_cons_other. intros E. subst. contradiction.
Qed.

Lemma columns_pop w v vs : NoDup w -> In (fst v) w ->
  nth_error (map (fun t => column_of t (v :: vs)) w) (tag_of w (fst v)) = Some (snd v :: column_of (fst v) vs)
  /\ set_nth (map (fun t => column_of t (v :: vs)) w) (tag_of w (fst v)) (column_of (fst v) vs)
     = map (fun t => column_of t vs) w.
Proof.
  induction w as [|x w IH]; intros Hd Hin; [destruct Hin|].
  inversion Hd as [|? ? Hn Hd']; subst. simpl.
  destruct (x =? fst v) eqn:E.
  - apply N.eqb_eq in E. subst. simpl. rewrite column_of_cons_same by reflexivity.
    split; [reflexivity|]. f_equal. apply columns_other. exact Hn.
  - apply N.eqb_neq in E. destruct Hin as [Hin|Hin]; [contradiction|].
    destruct (IH Hd' Hin) as [A B]. simpl. split; [exact A|]. rewrite B.
    rewrite column_of_cons_other by (intros E'; apply E; symmetry; exact E'). reflexivity.
Qed.

(* row reader: reading by tags restores the original interleaving *)
Lemma mux_columns w : NoDup w -> forall vs, (forall v, In v vs -> In (fst v) w) ->
  mux (map (fun v => tag_of w (fst v)) vs) (map (fun t => column_of t vs) w)
  = Some (map (fun v => (tag_of w (fst v), snd v)) vs).
Proof.
  intros Hd. induction vs as [|v vs IH]; intros Hin; simpl; [reflexivity|].
  destruct (columns_pop w v vs Hd (Hin v (or_introl eq_refl))) as [A B].
  rewrite A, B, IH; [reflexivity|]. intros x Hx. apply Hin. right. exact Hx.
Qed.

Lemma retag_tags w vs : (forall v, In v vs -> In (fst v) w) ->
  retag w (map (fun v => (tag_of w (fst v), snd v)) vs) = Some vs.
Proof.
  intros Hin. unfold retag. rewrite map_map.
  rewrite (all_some_map_Some _ (fun v => v)); [rewrite map_id; reflexivity|].
  intros v Hv. rewrite tag_of_nth by (apply Hin, Hv). destruct v; reflexivity.
Qed.

(* vector reader: TagMap.Forward *)
Lemma tag_of_inj w a b : In a w -> In b w -> tag_of w a = tag_of w b -> a = b.
Proof.
  intros Ha Hb E. apply tag_of_nth in Ha, Hb. rewrite E in Ha. congruence.
Qed.

Lemma count_seen w t pre : In t w -> (forall v, In v pre -> In (fst v) w) ->
  count_occ Nat.eq_dec (rev (map (fun v => tag_of w (fst v)) pre)) (tag_of w t) = List.length (column_of t pre).
Proof.
  intros Ht. induction pre as [|v pre IH]; intros Hin; [reflexivity|].
  simpl. rewrite count_occ_app, IH by (intros x Hx; apply Hin; right; exact Hx). simpl.
  destruct (Nat.eq_dec (tag_of w (fst v)) (tag_of w t)) as [E|E].
  - apply tag_of_inj in E; [|apply Hin; left; reflexivity|exact Ht].
    rewrite column_of_cons_same by exact E. simpl. lia.
  - rewrite column_of_cons_other by (intros E'; apply E; rewrite E'; reflexivity). lia.
Qed.

Lemma column_of_app t a b : column_of t (a ++ b) = column_of t a ++ column_of t b.
Proof. unfold column_of. rewrite filter_app, map_app. reflexivity. Qed.

Lemma forward_columns w : NoDup w -> forall rest pre,
  (forall v, In v (pre ++ rest) -> In (fst v) w) ->
  all_some (map (fun '(k, i) => match nth_error (map (fun t => column_of t (pre ++ rest)) w) k with
                                | Some c => match nth_error c i with Some x => Some (k, x) | None => None end
                                | None => None
                                end)
                (forward (rev (map (fun v => tag_of w (fst v)) pre)) (map (fun v => tag_of w (fst v)) rest)))
  = Some (map (fun v => (tag_of w (fst v), snd v)) rest).
Proof.
  intros Hd. induction rest as [|v rest IH]; intros pre Hin; [reflexivity|].
  assert (Hv : In (fst v) w) by (apply Hin, in_or_app; right; left; reflexivity).
  simpl forward. simpl map. cbn [all_some].
  rewrite nth_error_map, (tag_of_nth _ _ Hv). simpl option_map.
  rewrite (count_seen w (fst v) pre Hv) by (intros x Hx; apply Hin, in_or_app; left; exact Hx).
  rewrite column_of_app, nth_error_app2 by lia. rewrite Nat.sub_diag.
  rewrite column_of_cons_same by reflexivity. simpl nth_error.
  specialize (IH (pre ++ [v])). rewrite <- app_assoc in IH. simpl in IH.
  rewrite map_app, rev_app_distr in IH. simpl in IH. rewrite IH; [reflexivity|exact Hin].
Qed.

Lemma total_columns w : NoDup w -> forall vs, (forall v, In v vs -> In (fst v) w) ->
  fold_right (fun c a => (List.length c + a)%nat) O (map (fun t => column_of t vs) w) = List.length vs.
Proof.
  intros Hd. induction vs as [|v vs IH]; intros Hin.
  - clear. induction w as [|x w IH]; simpl; [reflexivity|exact IH].
  - assert (Hv : In (fst v) w) by (apply Hin; left; reflexivity).
    assert (IH' := IH (fun x Hx => Hin x (or_intror Hx))). clear IH. simpl List.length. rewrite <- IH'. clear IH' Hin.
    induction w as [|x w IHw]; [destruct Hv|]. inversion Hd as [|? ? Hn Hd']; subst. simpl.
    destruct (N.eq_dec x (fst v)) as [E|E].
    + subst. rewrite column_of_cons_same by reflexivity. rewrite (columns_other w v vs Hn). simpl. lia.
    + destruct Hv as [Hv|Hv]; [contradiction|].
      rewrite column_of_cons_other by (intros E'; apply E; symmetry; exact E'). rewrite (IHw Hd' Hv). lia.
Qed.

Lemma map_N_nat l : map N.to_nat (map (fun v : nat => N.of_nat v) l) = l.
Proof. rewrite map_map. rewrite <- (map_id l) at 2. apply map_ext. intros. apply Nat2N.id. Qed.

Lemma all_same_type t (vs : list value) : (forall v, In v vs -> fst v = t) -> map (fun x => (t, x)) (map snd vs) = vs.
Proof.
  induction vs as [|[t' x] vs IH]; intros H; simpl; [reflexivity|].
  pose proof (H (t', x) (or_introl eq_refl)) as E. simpl in E. subst t'.
  f_equal. apply IH. intros v Hv. apply H. right. exact Hv.
Qed.

Lemma column_all t (vs : list value) : (forall v, In v vs -> fst v = t) -> column_of t vs = map snd vs.
Proof.
  induction vs as [|v vs IH]; intros H; [reflexivity|].
  rewrite column_of_cons_same by (apply H; left; reflexivity). simpl. f_equal. apply IH.
  intros x Hx. apply H. right. exact Hx.
Qed.

Section ObjectRoundtrip.
  Variables order_sel order_meta : tyid -> dict -> dict.
  Hypothesis order_sel_perm : forall t d, Permutation (order_sel t d) d.
  Hypothesis orders_agree : forall t d, NoDup (keys d) -> order_meta t d = order_sel t d.

  Lemma vng_roundtrip_gen vec maxdict (small : tyid -> bool) (vs : list value) :
    (maxdict <= 256)%nat ->
    obj_read vec (obj_encode_gen order_sel order_meta maxdict small vs) = Some vs.
  Proof.
    intros Hm. unfold obj_encode_gen.
    destruct (which_spec vs) as [Hd Hin]. set (w := which vs) in *.
    assert (Hcols : all_some (map (col_decode vec)
                     (map (fun t => col_encode_gen (order_sel t) (order_meta t) maxdict (small t) (column_of t vs)) w))
                    = Some (map (fun t => column_of t vs) w)).
    { rewrite map_map. apply all_some_map_Some. intros t _.
      apply column_roundtrip_gen; auto. }
    assert (Hdyn : obj_read vec (ODyn w (map (fun v => N.of_nat (tag_of w (fst v))) vs)
                     (map (fun t => col_encode_gen (order_sel t) (order_meta t) maxdict (small t) (column_of t vs)) w) (nlen vs)) = Some vs).
    { simpl. rewrite Hcols. rewrite (total_columns w Hd vs Hin), map_length, Nat.eqb_refl.
      rewrite Bool.andb_false_r.
      rewrite <- (map_map (fun v => tag_of w (fst v)) N.of_nat), map_N_nat.
      destruct vec.
      - unfold demux_vec. pose proof (forward_columns w Hd vs [] Hin) as F. simpl in F. rewrite F.
        apply retag_tags, Hin.
      - rewrite (mux_columns w Hd vs Hin). apply retag_tags, Hin. }
    destruct w as [|t [|t' w']] eqn:Ew; try exact Hdyn.
    (* exactly one top-level type: no Dynamic node *)
    simpl. rewrite column_roundtrip_gen by auto.
    assert (Hall : forall v, In v vs -> fst v = t).
    { intros v Hv. destruct (Hin v Hv) as [E|[]]. symmetry. exact E. }
    rewrite (column_all t vs Hall). f_equal. apply all_same_type, Hall.
  Qed.
End ObjectRoundtrip.

(* ------------------------------------------------------------------ *)
(* makeDict is deterministic: sorting by a strict total order gives the same
   list whatever order the Go map was iterated in.  (Totality is what the
   tie-break on the bytes in sortDict provides: without it float 0. and -0.
   are incomparable and the two calls could disagree.) *)

Record strict_total (less : bytes -> bytes -> bool) : Prop := {
  st_irrefl : forall a, less a a = false;
  st_trans : forall a b c, less a b = true -> less b c = true -> less a c = true;
  st_total : forall a b, a <> b -> less a b = true \/ less b a = true
}.

Section SortFacts.
  Variable less : bytes -> bytes -> bool.
  Hypothesis Hst : strict_total less.

  Definition eless (x y : bytes * N) : Prop := less (fst x) (fst y) = true.

  Lemma dict_insert_perm e l : Permutation (dict_insert less e l) (e :: l).
  Proof.
    induction l as [|x l IH]; simpl; [apply Permutation_refl|].
    destruct (less (fst e) (fst x)); [apply Permutation_refl|].
    eapply Permutation_trans; [apply perm_skip, IH|apply perm_swap].
  Qed.

  Lemma sort_dict_perm d : Permutation (sort_dict less d) d.
  Proof.
    induction d as [|e d IH]; simpl; [constructor|].
    eapply Permutation_trans; [apply dict_insert_perm|apply perm_skip, IH].
  Qed.

  Lemma dict_insert_sorted e l :
    ~ In (fst e) (keys l) -> StronglySorted eless l -> StronglySorted eless (dict_insert less e l).
  Proof.
    induction l as [|x l IH]; intros Hn Hs; simpl; [repeat constructor|].
    inversion Hs as [|? ? Hs' Hf]; subst.
    destruct (less (fst e) (fst x)) eqn:E.
    - constructor; [exact Hs|]. constructor; [exact E|].
      eapply Forall_impl; [|exact Hf]. intros y Hy. unfold eless in *. eapply st_trans; eauto.
    - constructor.
      + apply IH; [intros H; apply Hn; right; exact H|exact Hs'].
      + assert (Hx : eless x e).
        { unfold eless. destruct (st_total _ Hst (fst e) (fst x)) as [H|H]; [|congruence|exact H].
          intros Heq. apply Hn. left. symmetry. exact Heq. }
        eapply Permutation_Forall; [apply Permutation_sym, dict_insert_perm|].
        constructor; [exact Hx|exact Hf].
  Qed.

  Lemma sort_dict_sorted d : NoDup (keys d) -> StronglySorted eless (sort_dict less d).
  Proof.
    induction d as [|e d IH]; intros Hn; simpl; [constructor|].
    inversion Hn as [|? ? Hni Hnd]; subst. apply dict_insert_sorted; [|apply IH, Hnd].
    intros H. apply Hni. eapply Permutation_in; [|exact H].
    apply Permutation_map, sort_dict_perm.
  Qed.

  Lemma sorted_unique (l1 : dict) : forall l2,
    StronglySorted eless l1 -> StronglySorted eless l2 -> Permutation l1 l2 -> l1 = l2.
  Proof.
    induction l1 as [|x l1 IH]; intros l2 H1 H2 P.
    - apply Permutation_nil in P. symmetry. exact P.
    - destruct l2 as [|y l2]; [apply Permutation_sym, Permutation_nil in P; discriminate|].
      inversion H1 as [|? ? H1' F1]; inversion H2 as [|? ? H2' F2]; subst.
      assert (E : x = y).
      { assert (Hx : In x (y :: l2)) by (eapply Permutation_in; [exact P|left; reflexivity]).
        assert (Hy : In y (x :: l1)) by (eapply Permutation_in; [apply Permutation_sym, P|left; reflexivity]).
        destruct Hx as [Hx|Hx]; [symmetry; exact Hx|]. destruct Hy as [Hy|Hy]; [exact Hy|].
        rewrite Forall_forall in F1, F2. pose proof (F1 _ Hy) as A. pose proof (F2 _ Hx) as B.
        unfold eless in *. pose proof (st_trans _ Hst _ _ _ A B) as C.
        rewrite (st_irrefl _ Hst) in C. discriminate. }
      subst y. f_equal. apply IH; auto. eapply Permutation_cons_inv. exact P.
  Qed.

  Theorem make_dict_deterministic (iter1 iter2 : dict -> dict) :
    (forall d, Permutation (iter1 d) d) -> (forall d, Permutation (iter2 d) d) ->
    forall d, NoDup (keys d) -> make_dict less iter2 d = make_dict less iter1 d.
  Proof.
    intros P1 P2 d Hn. unfold make_dict.
    assert (N1 : NoDup (keys (iter1 d))).
    { eapply Permutation_NoDup; [|exact Hn]. apply Permutation_map, Permutation_sym, P1. }
    assert (N2 : NoDup (keys (iter2 d))).
    { eapply Permutation_NoDup; [|exact Hn]. apply Permutation_map, Permutation_sym, P2. }
    apply sorted_unique; try (apply sort_dict_sorted; assumption).
    eapply Permutation_trans; [apply sort_dict_perm|].
    eapply Permutation_trans; [apply P2|].
    eapply Permutation_trans; [apply Permutation_sym, P1|apply Permutation_sym, sort_dict_perm].
  Qed.

  Lemma make_dict_perm iter : (forall d, Permutation (iter d) d) -> forall d, Permutation (make_dict less iter d) d.
  Proof. intros P d. unfold make_dict. eapply Permutation_trans; [apply sort_dict_perm|apply P]. Qed.
End SortFacts.

(* ------------------------------------------------------------------ *)
(* The writer as it is: sortDict by a strict total order, two independent
   iterations of the Go map. *)

Theorem prim_roundtrip less iter1 iter2 maxdict small vals :
  strict_total less ->
  (forall d, Permutation (iter1 d) d) -> (forall d, Permutation (iter2 d) d) ->
  (maxdict <= 256)%nat ->
  prim_decode (prim_encode (make_dict less iter1) (make_dict less iter2) maxdict small vals) = Some vals.
Proof.
  intros Hst P1 P2 Hm. apply prim_roundtrip_gen; [apply make_dict_perm; assumption| |exact Hm].
  intros d Hn. apply make_dict_deterministic; assumption.
Qed.

(* both readers invert the column writer, for every column (any number of
   values, nulls anywhere, any number of distinct values) and every
   dictionary bound up to the 256 a selector byte can address *)
Theorem column_roundtrip less iter1 iter2 vec maxdict small (l : list body) :
  strict_total less ->
  (forall d, Permutation (iter1 d) d) -> (forall d, Permutation (iter2 d) d) ->
  (maxdict <= 256)%nat ->
  col_decode vec (col_encode less iter1 iter2 maxdict small l) = Some l.
Proof.
  intros Hst P1 P2 Hm. unfold col_encode.
  apply column_roundtrip_gen; [apply make_dict_perm; assumption| |exact Hm].
  intros d Hn. apply make_dict_deterministic; assumption.
Qed.

(* Writing any sequence of (type, nullable primitive) values and reading it
   back through the row reader ([vec = false]) or through the vector cache
   + materializer ([vec = true]) yields the same sequence in the same order. *)
Theorem vng_roundtrip (less : tyid -> bytes -> bytes -> bool) iter1 iter2 vec maxdict
        (small : tyid -> bool) (vs : list value) :
  (forall t, strict_total (less t)) ->
  (forall d, Permutation (iter1 d) d) -> (forall d, Permutation (iter2 d) d) ->
  (maxdict <= 256)%nat ->
  obj_read vec (obj_encode less iter1 iter2 maxdict small vs) = Some vs.
Proof.
  intros Hst P1 P2 Hm. unfold obj_encode.
  apply vng_roundtrip_gen; [intros t; apply make_dict_perm; auto| |exact Hm].
  intros t d Hn. apply make_dict_deterministic; auto.
Qed.

(* ------------------------------------------------------------------ *)
(* The hypotheses are satisfiable (bytewise order), and the bound 256 on the
   dictionary size is tight: a selector is one byte. *)

Definition bytes_ltb (a b : bytes) : bool := match bytes_cmp a b with Lt => true | _ => false end.

Lemma bytes_ltb_strict_total : strict_total bytes_ltb.
Proof.
  constructor; unfold bytes_ltb.
  - intros a. rewrite bytes_cmp_refl. reflexivity.
  - intros a b c H1 H2.
    destruct (bytes_cmp a b) eqn:E1; try discriminate. destruct (bytes_cmp b c) eqn:E2; try discriminate.
    rewrite (bytes_cmp_lt_trans _ _ _ E1 E2). reflexivity.
  - intros a b Hne. destruct (bytes_cmp a b) eqn:E.
    + apply bytes_cmp_eq in E. contradiction.
    + left. reflexivity.
    + right. rewrite bytes_cmp_antisym, E. reflexivity.
Qed.

Fixpoint distinct_vals (n : nat) : list bytes :=
  match n with O => [] | S k => distinct_vals k ++ [[N.of_nat k / 256; N.of_nat k mod 256]] end.

Example dict_257_entries_break_roundtrip :
  let vals := distinct_vals 257 in
  prim_decode (prim_encode (make_dict bytes_ltb (fun d => d)) (make_dict bytes_ltb (@rev _)) 257 false vals) <> Some vals.
Proof. vm_compute. intros E. discriminate E. Qed.

Example dict_256_entries_roundtrip :
  let vals := distinct_vals 256 in
  prim_decode (prim_encode (make_dict bytes_ltb (fun d => d)) (make_dict bytes_ltb (@rev _)) 256 false vals) = Some vals.
Proof. vm_compute. reflexivity. Qed.

(* float -0. / +0. in one column, the two map iterations in opposite orders *)
Definition pos_zero : bytes := [0; 0; 0; 0; 0; 0; 0; 0].
Definition neg_zero : bytes := [0; 0; 0; 0; 0; 0; 0; 128].

Example signed_zero_column_roundtrip :
  let l := [Some neg_zero; Some pos_zero; None; Some neg_zero] in
  col_decode false (col_encode bytes_ltb (fun d => d) (@rev _) 256 false l) = Some l /\
  col_decode true (col_encode bytes_ltb (fun d => d) (@rev _) 256 false l) = Some l.
Proof. split; vm_compute; reflexivity. Qed.
