(* Proofs for C09 (vector runtime vs sequential runtime) about Model/Vam.v. *)
From ZV Require Import Base.Prelude Model.Vam Model.VamCases.
From Coq Require Import ZifyBool Permutation.
Local Open Scope Z_scope.

(* ---------------------------------------------------------------- equality tests *)

Lemma bytes_eqb_refl a : bytes_eqb a a = true.
Proof. apply bytes_eqb_eq. reflexivity. Qed.

Lemma bytes_eqb_false a b : a <> b -> bytes_eqb a b = false.
Proof.
  intro H. destruct (bytes_eqb a b) eqn:E; [|reflexivity].
  apply bytes_eqb_eq in E. contradiction.
Qed.

Lemma nty_eqb_eq a b : nty_eqb a b = true <-> a = b.
Proof. destruct a, b; simpl; split; intro H; try reflexivity; try discriminate. Qed.

Lemma value_eqb_eq a b : value_eqb a b = true <-> a = b.
Proof.
  destruct a, b; simpl; split; intro H; try reflexivity; try discriminate.
  - apply bytes_eqb_eq in H. subst. reflexivity.
  - inversion H. apply bytes_eqb_refl.
  - apply andb_true_iff in H. destruct H as [H1 H2].
    apply nty_eqb_eq in H1. apply Z.eqb_eq in H2. subst. reflexivity.
  - inversion H. apply andb_true_iff. split; [apply nty_eqb_eq | apply Z.eqb_eq]; reflexivity.
  - apply nty_eqb_eq in H. subst. reflexivity.
  - inversion H. apply nty_eqb_eq. reflexivity.
Qed.

(* ---------------------------------------------------------------- the table *)

Lemma tbl_get_set_same k c t : tbl_get k (tbl_set k c t) = c.
Proof.
  induction t as [|[k' c'] r IH]; simpl.
  - rewrite bytes_eqb_refl. reflexivity.
  - destruct (bytes_eqb k k') eqn:E; simpl; rewrite E; [reflexivity | exact IH].
Qed.

Lemma tbl_get_set_other k k' c t : k <> k' -> tbl_get k (tbl_set k' c t) = tbl_get k t.
Proof.
  intro Hne. induction t as [|[k1 c1] r IH]; simpl.
  - rewrite (bytes_eqb_false _ _ Hne). reflexivity.
  - destruct (bytes_eqb k' k1) eqn:E1; simpl.
    + apply bytes_eqb_eq in E1. subst k1.
      rewrite (bytes_eqb_false _ _ Hne). reflexivity.
    + destruct (bytes_eqb k k1); [reflexivity | exact IH].
Qed.

Lemma tbl_get_add k s d t :
  tbl_get k (tbl_add s d t) = tbl_get k t + (if bytes_eqb k s then d else 0).
Proof.
  unfold tbl_add. destruct (bytes_eqb k s) eqn:E.
  - apply bytes_eqb_eq in E. subst. rewrite tbl_get_set_same. reflexivity.
  - rewrite tbl_get_set_other; [lia|]. intro H. subst. rewrite bytes_eqb_refl in E. discriminate.
Qed.

(* ---------------------------------------------------------------- occurrences *)

Lemma occ_app v a b : occ v (a ++ b) = occ v a + occ v b.
Proof. induction a as [|x r IH]; simpl; [reflexivity | rewrite IH; lia]. Qed.

Lemma occ_nonneg v l : 0 <= occ v l.
Proof. induction l as [|x r IH]; simpl; [lia | destruct (value_eqb v x); lia]. Qed.

Lemma occ_zero v l : (forall x, In x l -> x <> v) -> occ v l = 0.
Proof.
  induction l as [|x r IH]; simpl; intro H; [reflexivity|].
  destruct (value_eqb v x) eqn:E.
  - apply value_eqb_eq in E. exfalso. apply (H x); [left; reflexivity | symmetry; exact E].
  - rewrite IH; [reflexivity|]. intros y Hy. apply H. right. exact Hy.
Qed.

Lemma occ_perm v a b : Permutation a b -> occ v a = occ v b.
Proof. induction 1; simpl; try lia. Qed.

Lemma decode_all_app a b : decode_all (a ++ b) = decode_all a ++ decode_all b.
Proof. unfold decode_all. apply flat_map_app. Qed.

(* ---------------------------------------------------------------- null masks *)

Definition no_nulls (nulls : list bool) : Prop := forallb negb nulls = true.

Lemma no_nulls_hd nulls : no_nulls nulls -> hd false nulls = false.
Proof. destruct nulls as [|b r]; simpl; [reflexivity|]. unfold no_nulls. simpl. destruct b; simpl; [discriminate | reflexivity]. Qed.

Lemma no_nulls_tl nulls : no_nulls nulls -> no_nulls (tl nulls).
Proof. destruct nulls as [|b r]; simpl; [trivial|]. unfold no_nulls. simpl. intro H. apply andb_true_iff in H. apply H. Qed.

Lemma dec_str_nonull vals : forall nulls, no_nulls nulls -> dec_str vals nulls = map VStr vals.
Proof.
  induction vals as [|s r IH]; intros nulls H; simpl; [reflexivity|].
  rewrite (no_nulls_hd _ H), (IH _ (no_nulls_tl _ H)). reflexivity.
Qed.

Lemma dec_const_nonull v n : forall nulls, no_nulls nulls -> dec_const v n nulls = repeat (cval_value v) n.
Proof.
  induction n as [|m IH]; intros nulls H; simpl; [reflexivity|].
  rewrite (no_nulls_hd _ H), (IH _ (no_nulls_tl _ H)). reflexivity.
Qed.

(* ---------------------------------------------------------------- CountByString *)

(* the rows a leg emits report, for every key, its number of occurrences *)
Definition inv (st : cbstate) (vals : list value) : Prop :=
  forall v, row_count st v = occ v vals.

(* The class of columns on which the operator is right.  [pre] = the values
   the leg has consumed before this column.
   - plain string vectors and string constants without nulls;
   - string dictionaries without nulls that satisfy the VNG dictionary
     invariant (distinct entries, counts = occurrences) AND none of whose
     entries has been seen before by this leg (countDict assigns). *)
Definition dict_ok (pre : list value) (e : list bytes) (cnt : list Z) (dec : list value) : Prop :=
  NoDup e /\ List.length cnt = List.length e /\
  (forall v, In v dec -> exists s, In s e /\ v = VStr s) /\
  (forall k, (k < List.length e)%nat -> nth k cnt 0 = occ (VStr (nth k e [])) dec) /\
  (forall s, In s e -> occ (VStr s) pre = 0).

Definition good_col (pre : list value) (c : col) : Prop :=
  match c with
  | CStr _ nulls => no_nulls nulls
  | CConst (KStr _) _ nulls => no_nulls nulls
  | CDictStr e cnt idx nulls => dict_ok pre e cnt (decode c)
  | _ => False
  end.

Fixpoint good_cols (pre : list value) (cols : list col) : Prop :=
  match cols with
  | [] => True
  | c :: r => good_col pre c /\ good_cols (pre ++ decode c) r
  end.

Lemma fold_add_get k vals : forall T,
  tbl_get k (fold_left (fun t s => tbl_add s 1 t) vals T) = tbl_get k T + occ (VStr k) (map VStr vals).
Proof.
  induction vals as [|s r IH]; intro T; simpl; [lia|].
  rewrite IH, tbl_get_add. destruct (bytes_eqb k s); lia.
Qed.

Lemma occ_map_VStr_other v vals : (forall s, v <> VStr s) -> occ v (map VStr vals) = 0.
Proof.
  intro H. apply occ_zero. intros x Hx. apply in_map_iff in Hx. destruct Hx as [s [Hs _]].
  subst. intro E. apply (H s). symmetry. exact E.
Qed.

Lemma step_plain st pre vals :
  inv st pre -> inv (count_plain vals st) (pre ++ map VStr vals).
Proof.
  intros Hinv v. rewrite occ_app. specialize (Hinv v).
  destruct v; simpl in *;
    try (rewrite occ_map_VStr_other by (intros s0 E; discriminate); lia).
  rewrite fold_add_get, Hinv. reflexivity.
Qed.

Lemma occ_repeat_str k s n :
  occ (VStr k) (repeat (VStr s) n) = if bytes_eqb k s then Z.of_nat n else 0.
Proof.
  induction n as [|m IH]; simpl repeat; simpl occ.
  - destruct (bytes_eqb k s); reflexivity.
  - rewrite IH. destruct (bytes_eqb k s); lia.
Qed.

Lemma step_const_str st pre s n :
  inv st pre -> inv (count_fixed (KStr s) n st) (pre ++ repeat (VStr s) n).
Proof.
  intros Hinv v. rewrite occ_app. specialize (Hinv v).
  assert (Hother : forall w, (forall s0, w <> VStr s0) -> occ w (repeat (VStr s) n) = 0).
  { intros w Hw. apply occ_zero. intros x Hx. apply repeat_spec in Hx. subst. intro E. apply (Hw s). symmetry. exact E. }
  destruct v; simpl in *;
    try (rewrite Hother by (intros s0 E; discriminate); lia).
  rewrite tbl_get_add, occ_repeat_str, Hinv. reflexivity.
Qed.

Lemma fold_set_notin k e : forall cnt T, ~ In k e ->
  tbl_get k (fold_left (fun t '(s, c) => tbl_set s c t) (combine e cnt) T) = tbl_get k T.
Proof.
  induction e as [|s e' IH]; intros cnt T Hn; simpl; [reflexivity|].
  destruct cnt as [|c cnt']; simpl; [reflexivity|].
  rewrite IH by (intro H; apply Hn; right; exact H).
  apply tbl_get_set_other. intro E. apply Hn. left. symmetry. exact E.
Qed.

Lemma fold_set_nth e : forall cnt T i, NoDup e -> List.length cnt = List.length e -> (i < List.length e)%nat ->
  tbl_get (nth i e []) (fold_left (fun t '(s, c) => tbl_set s c t) (combine e cnt) T) = nth i cnt 0.
Proof.
  induction e as [|s e' IH]; intros cnt T i Hnd Hlen Hi; simpl in Hi; [lia|].
  destruct cnt as [|c cnt']; simpl in Hlen; [lia|].
  inversion Hnd as [|? ? Hnotin Hnd']; subst.
  destruct i as [|j]; simpl.
  - rewrite fold_set_notin by exact Hnotin. apply tbl_get_set_same.
  - apply IH; [exact Hnd' | lia | lia].
Qed.

Lemma step_dict st pre e cnt dec :
  inv st pre -> dict_ok pre e cnt dec -> inv (count_dict e cnt st) (pre ++ dec).
Proof.
  intros Hinv (Hnd & Hlen & Hvals & Hcnt & Hfresh) v. rewrite occ_app.
  assert (Hother : forall w, (forall s0, w <> VStr s0) -> occ w dec = 0).
  { intros w Hw. apply occ_zero. intros x Hx. destruct (Hvals x Hx) as [s0 [_ E]]. subst.
    intro E'. apply (Hw s0). symmetry. exact E'. }
  pose proof (Hinv v) as Hv.
  destruct v; simpl in *;
    try (rewrite Hother by (intros s0 E; discriminate); lia).
  destruct (in_dec (list_eq_dec N.eq_dec) s e) as [Hin | Hnin].
  - destruct (In_nth _ _ [] Hin) as [i [Hi Hnth]].
    subst s. rewrite fold_set_nth by assumption.
    rewrite (Hcnt i Hi). rewrite (Hfresh _ Hin). reflexivity.
  - rewrite fold_set_notin by exact Hnin. rewrite Hv.
    assert (occ (VStr s) dec = 0) as ->; [|lia].
    apply occ_zero. intros x Hx. destruct (Hvals x Hx) as [s0 [Hs0 E]]. subst.
    intro E'. inversion E'. subst. contradiction.
Qed.

Lemma step_good st pre c :
  inv st pre -> good_col pre c ->
  exists st', cb_update st c = Some st' /\ inv st' (pre ++ decode c).
Proof.
  intros Hinv Hg. destruct c; simpl in Hg; try contradiction.
  - eexists. split; [reflexivity|]. simpl. rewrite dec_str_nonull by exact Hg.
    apply step_plain. exact Hinv.
  - eexists. split; [reflexivity|]. apply step_dict; assumption.
  - destruct v; try contradiction.
    eexists. split; [reflexivity|]. simpl decode. rewrite dec_const_nonull by exact Hg.
    simpl cval_value. apply step_const_str. exact Hinv.
Qed.

Lemma run_agrees cols : forall st pre,
  inv st pre -> good_cols pre cols ->
  exists st', cb_run st cols = Some st' /\ inv st' (pre ++ decode_all cols).
Proof.
  induction cols as [|c r IH]; intros st pre Hinv Hg; simpl.
  - exists st. split; [reflexivity|]. rewrite app_nil_r. exact Hinv.
  - destruct Hg as [Hc Hr].
    destruct (step_good st pre c Hinv Hc) as [st1 [Hu Hinv1]].
    rewrite Hu. destruct (IH st1 (pre ++ decode c) Hinv1 Hr) as [st2 [Hrun Hinv2]].
    exists st2. split; [exact Hrun|]. unfold decode_all in *. simpl. rewrite app_assoc. exact Hinv2.
Qed.

(* count() by <field>: on the good class the vector operator does not panic and
   reports, for EVERY value, exactly its number of occurrences in the data
   (so in particular no row for absent values and for nulls). *)
Theorem count_by_agrees : forall cols,
  good_cols [] cols ->
  exists st, v_count_by cols = Some st /\
             forall v, row_count st v = occ v (decode_all cols).
Proof.
  intros cols Hg. unfold v_count_by.
  destruct (run_agrees cols cb_init [] (fun v => match v with VStr _ => eq_refl | _ => eq_refl end) Hg) as [st [Hrun Hinv]].
  exists st. split; [exact Hrun | exact Hinv].
Qed.

(* several legs: each leg emits its own table; the downstream (sequential)
   summarize adds the per-key counts. *)
Definition leg_count (leg : list col) (v : value) : Z :=
  match v_count_by leg with Some st => row_count st v | None => 0 end.

Fixpoint legs_total (legs : list (list col)) (v : value) : Z :=
  match legs with
  | [] => 0
  | l :: r => leg_count l v + legs_total r v
  end.

Theorem count_by_legs_compose : forall legs,
  Forall (good_cols []) legs ->
  Forall (fun leg => v_count_by leg <> None) legs /\
  forall v, legs_total legs v = occ v (decode_all (List.concat legs)).
Proof.
  induction 1 as [|leg r Hleg Hr IH]; simpl.
  - split; [constructor | reflexivity].
  - destruct IH as [IH1 IH2]. destruct (count_by_agrees leg Hleg) as [st [Hrun Hinv]]. split.
    + constructor; [rewrite Hrun; discriminate | exact IH1].
    + intro v. rewrite decode_all_app, occ_app, <- IH2, <- Hinv.
      unfold leg_count. rewrite Hrun. reflexivity.
Qed.

(* Adding/removing vector copies or redistributing the objects over the legs
   does not change the answer: it only depends on the multiset of values. *)
Theorem count_by_vectors_irrelevant : forall legs seqvals,
  Forall (good_cols []) legs ->
  Permutation seqvals (decode_all (List.concat legs)) ->
  forall v, legs_total legs v = occ v seqvals.
Proof.
  intros legs seqvals Hg Hp v.
  rewrite (proj2 (count_by_legs_compose legs Hg)). symmetry. apply occ_perm. exact Hp.
Qed.

(* The dictionary hypotheses follow from the syntactic invariant [col_wfb]
   that the correspondence check evaluates on every real dictionary vector. *)
Lemma nodupb_NoDup e : nodupb e = true -> NoDup e.
Proof.
  induction e as [|x r IH]; simpl; intro H; [constructor|].
  apply andb_true_iff in H. destruct H as [H1 H2]. constructor; [|apply IH; exact H2].
  intro Hin. apply negb_true_iff in H1.
  assert (existsb (bytes_eqb x) r = true) as E; [|rewrite E in H1; discriminate].
  apply existsb_exists. exists x. split; [exact Hin | apply bytes_eqb_refl].
Qed.

Lemma dec_dict_in e idx : forall nulls, no_nulls nulls ->
  forallb (fun i => Nat.ltb i (List.length e)) idx = true ->
  forall v, In v (dec_dict_str e idx nulls) -> exists s, In s e /\ v = VStr s.
Proof.
  induction idx as [|i r IH]; intros nulls Hn Hlt v Hin; simpl in *; [contradiction|].
  apply andb_true_iff in Hlt. destruct Hlt as [Hi Hr].
  rewrite (no_nulls_hd _ Hn) in Hin. destruct Hin as [E | Hin].
  - exists (nth i e []). split; [|symmetry; exact E]. apply nth_In. apply Nat.ltb_lt. exact Hi.
  - apply (IH _ (no_nulls_tl _ Hn) Hr v Hin).
Qed.

Lemma tag_occ e k : NoDup e -> (k < List.length e)%nat ->
  forall idx nulls, no_nulls nulls ->
  forallb (fun i => Nat.ltb i (List.length e)) idx = true ->
  tagcount k idx nulls = occ (VStr (nth k e [])) (dec_dict_str e idx nulls).
Proof.
  intros Hnd Hk. induction idx as [|i r IH]; intros nulls Hn Hlt; simpl; [reflexivity|].
  apply andb_true_iff in Hlt. destruct Hlt as [Hi Hr]. apply Nat.ltb_lt in Hi.
  rewrite (no_nulls_hd _ Hn). simpl negb. simpl andb.
  rewrite (IH _ (no_nulls_tl _ Hn) Hr). f_equal. simpl value_eqb.
  destruct (Nat.eqb i k) eqn:E.
  - apply Nat.eqb_eq in E. subst. rewrite bytes_eqb_refl. reflexivity.
  - apply Nat.eqb_neq in E. rewrite bytes_eqb_false; [reflexivity|].
    intro Heq. apply E. symmetry. apply (proj1 (NoDup_nth e []) Hnd k i Hk Hi Heq).
Qed.

Theorem good_dict_from_wfb : forall pre e cnt idx nulls,
  col_wfb (CDictStr e cnt idx nulls) = true -> no_nulls nulls ->
  (forall s, In s e -> occ (VStr s) pre = 0) ->
  good_col pre (CDictStr e cnt idx nulls).
Proof.
  intros pre e cnt idx nulls Hwf Hn Hfresh. simpl in Hwf.
  apply andb_true_iff in Hwf. destruct Hwf as [Hnd Hc]. unfold counts_okb in Hc.
  apply andb_true_iff in Hc. destruct Hc as [Hc Hcnt].
  apply andb_true_iff in Hc. destruct Hc as [Hlen Hlt].
  apply nodupb_NoDup in Hnd. apply Nat.eqb_eq in Hlen.
  simpl. unfold dict_ok. repeat split.
  - exact Hnd.
  - exact Hlen.
  - apply dec_dict_in; assumption.
  - intros k Hk. simpl decode.
    etransitivity; [| exact (tag_occ e k Hnd Hk idx nulls Hn Hlt)].
    rewrite forallb_forall in Hcnt. apply Z.eqb_eq. apply Hcnt. apply in_seq. lia.
  - exact Hfresh.
Qed.

(* non-vacuity: a leg with a constant, a dictionary and a plain column *)
Example good_cols_example :
  good_cols [] [CConst (KStr (hex "61")) 2 []; CDictStr [hex "62"; hex "63"] [2; 1] [0; 1; 0]%nat []; CStr [hex "61"; hex "64"] []].
Proof.
  simpl. repeat split; try reflexivity.
  - repeat constructor; simpl; intuition discriminate.
  - intros v [H | [H | [H | []]]]; subst; eexists; split; try reflexivity; simpl; auto.
  - intros k Hk. destruct k as [|[|k]]; simpl in *; try reflexivity; lia.
  - intros s [H | [H | []]]; subst; reflexivity.
Qed.

(* ---- where the code leaves the sequential semantics (each is replayed on a real lake) *)

Definition disagrees (cols : list col) : Prop :=
  match v_count_by cols with
  | None => True                                                      (* the query dies *)
  | Some st => exists v, row_count st v <> occ v (decode_all cols)
  end.

(* two objects whose dictionaries share a key: the later count overwrites *)
Theorem count_by_refuted_dict_overwrites :
  exists cols, Forall (fun c => col_wfb c = true) cols /\ disagrees cols.
Proof.
  exists [CDictStr [hex "61"; hex "62"] [2; 1] [0; 1; 0]%nat []; CDictStr [hex "61"; hex "62"] [1; 1] [0; 1]%nat []].
  split; [repeat constructor|]. exists (VStr (hex "61")). vm_compute. discriminate.
Qed.

(* a null string in a plain string column is counted as "" *)
Theorem count_by_refuted_null_string :
  exists cols, Forall (fun c => col_wfb c = true) cols /\ disagrees cols.
Proof.
  exists [CStr [hex "61"; []] [false; true]].
  split; [repeat constructor|]. exists VNullStr. vm_compute. discriminate.
Qed.

(* any non-string kind: panic *)
Theorem count_by_refuted_nonstring_panics :
  v_count_by [CNum NInt [1; 2] []] = None /\ v_count_by [CMissing 1] = None /\
  v_count_by [CDictNum NInt [1; 2] [1; 1] [0; 1]%nat []] = None.
Proof. repeat split. Qed.

(* a constant of another type is dropped silently; a null-typed constant is
   reported as null(string) *)
Theorem count_by_refuted_const :
  disagrees [CConst (KNum NInt 7) 3 []] /\ disagrees [CConst KNullV 2 []].
Proof.
  split.
  - exists (VNum NInt 7). vm_compute. discriminate.
  - exists VNull. vm_compute. discriminate.
Qed.

(* ---------------------------------------------------------------- Sum *)

Lemma two64_pos : 0 < two64. Proof. reflexivity. Qed.

Lemma wrap64_add a x : wrap64 (wrap64 a + wrap64 x) = wrap64 (a + x).
Proof.
  unfold wrap64.
  replace ((a + two63) mod two64 - two63 + ((x + two63) mod two64 - two63) + two63)
    with ((a + two63) mod two64 + ((x + two63) mod two64 - two63)) by ring.
  rewrite Zplus_mod_idemp_l.
  replace (a + two63 + ((x + two63) mod two64 - two63)) with ((x + two63) mod two64 + a) by ring.
  rewrite Zplus_mod_idemp_l.
  replace (x + two63 + a) with (a + x + two63) by ring. reflexivity.
Qed.

Lemma wrap64_idem a : wrap64 (wrap64 a) = wrap64 a.
Proof.
  unfold wrap64. replace ((a + two63) mod two64 - two63 + two63) with ((a + two63) mod two64) by ring.
  rewrite Zmod_mod. reflexivity.
Qed.

Lemma wrap64_add_l a x : wrap64 (wrap64 a + x) = wrap64 (a + x).
Proof.
  unfold wrap64.
  replace ((a + two63) mod two64 - two63 + x + two63) with ((a + two63) mod two64 + x) by ring.
  rewrite Zplus_mod_idemp_l. replace (a + two63 + x) with (a + x + two63) by ring. reflexivity.
Qed.

Definition zsum (l : list Z) : Z := fold_right Z.add 0 l.

Lemma zsum_app a b : zsum (a ++ b) = zsum a + zsum b.
Proof. induction a as [|x r IH]; simpl; [reflexivity | rewrite IH; lia]. Qed.

Lemma sum_vals_spec vals : forall T, sum_vals (wrap64 T) vals = wrap64 (T + zsum vals).
Proof.
  unfold sum_vals. induction vals as [|x r IH]; intro T; simpl.
  - f_equal. lia.
  - rewrite wrap64_add, IH. f_equal. lia.
Qed.

(* null slots of a loaded number vector hold 0 *)
Fixpoint nulls_zero (vals : list Z) (nulls : list bool) : Prop :=
  match vals with
  | [] => True
  | z :: r => (hd false nulls = true -> z = 0) /\ nulls_zero r (tl nulls)
  end.

Lemma ints_of_app a b : ints_of (a ++ b) = ints_of a ++ ints_of b.
Proof.
  induction a as [|x r IH]; simpl; [reflexivity|].
  destruct x as [| t z | | | | |]; try exact IH. destruct t; simpl; rewrite ?IH; reflexivity.
Qed.

Lemma ints_dec_num vals : forall nulls, nulls_zero vals nulls ->
  zsum (ints_of (dec_num NInt vals nulls)) = zsum vals.
Proof.
  induction vals as [|z r IH]; intros nulls H; simpl; [reflexivity|].
  destruct H as [H0 Hr]. destruct (hd false nulls) eqn:E; simpl.
  - rewrite (IH _ Hr), (H0 eq_refl). reflexivity.
  - rewrite (IH _ Hr). reflexivity.
Qed.

Lemma ints_dec_num_nonempty vals : forall nulls,
  ints_of (dec_num NInt vals nulls) = [] -> zsum vals = zsum vals.
Proof. reflexivity. Qed.

Lemma ints_dec_str vals : forall nulls, ints_of (dec_str vals nulls) = [].
Proof. induction vals as [|s r IH]; intro nulls; simpl; [reflexivity|]. destruct (hd false nulls); apply IH. Qed.

Lemma ints_dec_dict_str e idx : forall nulls, ints_of (dec_dict_str e idx nulls) = [].
Proof. induction idx as [|i r IH]; intro nulls; simpl; [reflexivity|]. destruct (hd false nulls); apply IH. Qed.

Lemma ints_repeat v n : (forall z, v <> VNum NInt z) -> ints_of (repeat v n) = [].
Proof.
  intro H. induction n as [|m IH]; simpl; [reflexivity|].
  destruct v as [| t z | | | | |]; try exact IH. destruct t; try exact IH. exfalso. apply (H z). reflexivity.
Qed.

Lemma ints_dec_const v n : forall nulls, (forall t z, v <> KNum t z) -> ints_of (dec_const v n nulls) = [].
Proof.
  induction n as [|m IH]; intros nulls H; simpl; [reflexivity|].
  destruct v as [s | t z | |]; try (exfalso; apply (H t z); reflexivity);
    destruct (hd false nulls); simpl; apply IH; exact H.
Qed.

(* The class on which Sum is right: plain int64 vectors (any null mask) and
   the columns that hold no number at all (strings, missing fields), which both
   runtimes skip.  Not in the class: constants (Sum ignores vector.Const),
   floats (ignored), uint64 (added as int64 and the result is always typed
   int64), other widths/durations (result type), dictionaries of numbers
   (correct in the code, but not covered by this theorem). *)
Definition sum_good (c : col) : Prop :=
  match c with
  | CNum NInt vals nulls => nulls_zero vals nulls
  | CStr _ _ | CDictStr _ _ _ _ | CMissing _ => True
  | CConst (KStr _) _ _ | CConst KNullV _ _ => True
  | _ => False
  end.

Lemma sum_step T c : sum_good c ->
  sum_update (wrap64 T) c = wrap64 (T + zsum (ints_of (decode c))).
Proof.
  intro H. destruct c; simpl in H; try contradiction; simpl.
  - rewrite ints_dec_str. simpl. f_equal. lia.
  - destruct t; try contradiction. simpl. rewrite sum_vals_spec, ints_dec_num by exact H. reflexivity.
  - rewrite ints_dec_dict_str. simpl. f_equal. lia.
  - destruct v; try contradiction; rewrite ints_dec_const by (intros; discriminate); simpl; f_equal; lia.
  - rewrite ints_repeat by (intros; discriminate). simpl. f_equal. lia.
Qed.

Lemma sum_run cols : forall T, Forall sum_good cols ->
  fold_left sum_update cols (wrap64 T) = wrap64 (T + zsum (ints_of (decode_all cols))).
Proof.
  induction cols as [|c r IH]; intros T H; simpl.
  - f_equal. lia.
  - inversion H as [|? ? Hc Hr]; subst. rewrite sum_step by exact Hc. rewrite IH by exact Hr.
    unfold decode_all. simpl. rewrite ints_of_app, zsum_app. f_equal. lia.
Qed.

(* sum(<field>): on the good class, when the data holds at least one int64,
   the vector operator returns the sequential result (int64 wrap-around
   included). *)
Theorem sum_agrees : forall cols,
  Forall sum_good cols ->
  ints_of (decode_all cols) <> [] ->
  seq_sum_int (decode_all cols) = Some (v_sum cols).
Proof.
  intros cols Hg Hne. unfold seq_sum_int, v_sum.
  change 0 with (wrap64 0) at 2. rewrite sum_run by exact Hg.
  destruct (ints_of (decode_all cols)) eqn:E; [contradiction|]. reflexivity.
Qed.

Example sum_good_example :
  Forall sum_good [CNum NInt [5; 0; -7] [false; true; false]; CMissing 2; CStr [hex "61"] []] /\
  ints_of (decode_all [CNum NInt [5; 0; -7] [false; true; false]; CMissing 2; CStr [hex "61"] []]) <> [].
Proof. split; [repeat constructor; simpl; intuition discriminate | vm_compute; discriminate]. Qed.

(* a column holding the same int64 in every record is a vector.Const: ignored *)
Theorem sum_refuted_const_ignored :
  seq_sum_int (decode_all [CConst (KNum NInt 5) 3 []]) = Some 15 /\ v_sum [CConst (KNum NInt 5) 3 []] = 0.
Proof. split; reflexivity. Qed.

(* no number at all: the sequential result is null, the vector result 0 *)
Theorem sum_refuted_no_values :
  seq_sum_int (decode_all [CMissing 2]) = None /\ v_sum [CMissing 2] = 0.
Proof. split; reflexivity. Qed.

(* floats are skipped: {1.5, 2.5} sums to 0 *)
Theorem sum_refuted_float_ignored :
  v_sum [CNum NFloat [4609434218613702656; 4612811918334230528] []] = 0.
Proof. reflexivity. Qed.

(* ---------------------------------------------------------------- planner *)

Theorem vectorized_only_with_all_vectors : forall sh par nobj nvec,
  vectorized sh par nobj nvec = true ->
  (1 < par)%N /\ (0 < nobj)%N /\ nvec = nobj /\ sh <> SOther.
Proof.
  intros sh par nobj nvec H. unfold vectorized in H.
  repeat (apply andb_true_iff in H; destruct H as [H ?]).
  repeat split; try lia. destruct sh; [discriminate | discriminate | discriminate].
Qed.

Theorem not_vectorized_without_vectors : forall sh par nobj nvec,
  (nvec < nobj)%N -> vectorized sh par nobj nvec = false.
Proof.
  intros sh par nobj nvec H. unfold vectorized.
  assert ((nvec =? nobj)%N = false) as -> by lia.
  rewrite andb_false_r. reflexivity.
Qed.
