(* Proofs for C09 (vector runtime vs sequential runtime) about Model/Vam.v. *)
From ZV Require Import Base.Prelude Model.Vam Model.VamCases.
From Coq Require Import ZifyBool Permutation.
Local Open Scope Z_scope.

(* ---------------------------------------------------------------- equality tests *)

Lemma bytes_eqb_refl a : bytes_eqb a a = true.
Proof. apply bytes_eqb_eq. reflexivity. Qed.

Lemma bytes_eqb_false a b : a <> b -> bytes_eqb a b = false.
Proof.
  intro H. destruct (bytes_eqb a b) eqn:E; [|reflexivity].
  apply bytes_eqb_eq in E. contradiction.
Qed.

Lemma nty_eqb_eq a b : nty_eqb a b = true <-> a = b.
Proof. destruct a, b; simpl; split; intro H; try reflexivity; try discriminate. Qed.

Lemma value_eqb_eq a b : value_eqb a b = true <-> a = b.
Proof.
  destruct a, b; simpl; split; intro H; try reflexivity; try discriminate.
  - apply bytes_eqb_eq in H. subst. reflexivity.
  - inversion H. apply bytes_eqb_refl.
  - apply andb_true_iff in H. destruct H as [H1 H2].
    apply nty_eqb_eq in H1. apply Z.eqb_eq in H2. subst. reflexivity.
  - inversion H. apply andb_true_iff. split; [apply nty_eqb_eq | apply Z.eqb_eq]; reflexivity.
  - apply nty_eqb_eq in H. subst. reflexivity.
  - inversion H. apply nty_eqb_eq. reflexivity.
Qed.

(* ---------------------------------------------------------------- the table *)

Lemma tbl_get_set_same k c t : tbl_get k (tbl_set k c t) = c.
Proof.
  induction t as [|[k' c'] r IH]; simpl.
  - rewrite bytes_eqb_refl. reflexivity.
  - destruct (bytes_eqb k k') eqn:E; simpl; rewrite E; [reflexivity | exact IH].
Qed.

Lemma tbl_get_set_other k k' c t : k <> k' -> tbl_get k (tbl_set k' c t) = tbl_get k t.
Proof.
  intro Hne. induction t as [|[k1 c1] r IH]; simpl.
  - rewrite (bytes_eqb_false _ _ Hne). reflexivity.
  - destruct (bytes_eqb k' k1) eqn:E1; simpl.
    + apply bytes_eqb_eq in E1. subst k1.
      rewrite (bytes_eqb_false _ _ Hne). reflexivity.
    + destruct (bytes_eqb k k1); [reflexivity | exact IH].
Qed.

Lemma tbl_get_add k s d t :
  tbl_get k (tbl_add s d t) = tbl_get k t + (if bytes_eqb k s then d else 0).
Proof.
  unfold tbl_add. destruct (bytes_eqb k s) eqn:E.
  - apply bytes_eqb_eq in E. subst. rewrite tbl_get_set_same. reflexivity.
  - rewrite tbl_get_set_other; [lia|]. intro H. subst. rewrite bytes_eqb_refl in E. discriminate.
Qed.

(* ---------------------------------------------------------------- occurrences *)

Lemma occ_app v a b : occ v (a ++ b) = occ v a + occ v b.
Proof. induction a as [|x r IH]; simpl; [reflexivity | rewrite IH; lia]. Qed.

Lemma occ_nonneg v l : 0 <= occ v l.
Proof. induction l as [|x r IH]; simpl; [lia | destruct (value_eqb v x); lia]. Qed.

Lemma occ_zero v l : (forall x, In x l -> x <> v) -> occ v l = 0.
Proof.
  induction l as [|x r IH]; simpl; intro H; [reflexivity|].
  destruct (value_eqb v x) eqn:E.
  - apply value_eqb_eq in E. exfalso. apply (H x); [left; reflexivity | symmetry; exact E].
  - rewrite IH; [reflexivity|]. intros y Hy. apply H. right. exact Hy.
Qed.

Lemma occ_perm v a b : Permutation a b -> occ v a = occ v b.
Proof. induction 1; simpl; try lia. Qed.

Lemma decode_all_app a b : decode_all (a ++ b) = decode_all a ++ decode_all b.
Proof. unfold decode_all. apply flat_map_app. Qed.

(* ---------------------------------------------------------------- CountByString *)

(* the rows a leg emits report, for every key, its number of occurrences *)
Definition inv (st : cbstate) (vals : list value) : Prop :=
  forall v, row_count st v = occ v vals.

(* The class of columns on which the operator is right: every vector kind a
   string-typed field can have -- plain string vectors, string constants and
   string dictionaries satisfying the VNG dictionary invariant [col_wfb]
   (distinct entries, tags in range, counts = number of non-null slots per
   tag) -- each with ANY null mask. *)
Definition good_col (c : col) : Prop :=
  match c with
  | CStr _ _ => True
  | CConst (KStr _) _ _ => True
  | CDictStr _ _ _ _ => col_wfb c = true
  | _ => False
  end.

Lemma inv_add_str st pre s :
  inv st pre -> inv (mkcb (tbl_add s 1 (cb_tbl st)) (cb_nulls st)) (pre ++ [VStr s]).
Proof.
  intros Hinv v. rewrite occ_app. specialize (Hinv v). destruct v; simpl in *; try lia.
  rewrite tbl_get_add, Hinv. destruct (bytes_eqb s0 s); lia.
Qed.

Lemma inv_add_null st pre :
  inv st pre -> inv (mkcb (cb_tbl st) (cb_nulls st + 1)) (pre ++ [VNullStr]).
Proof.
  intros Hinv v. rewrite occ_app. specialize (Hinv v). destruct v; simpl in *; lia.
Qed.

Lemma step_plain vals : forall nulls st pre,
  inv st pre -> inv (count_plain vals nulls st) (pre ++ dec_str vals nulls).
Proof.
  induction vals as [|s r IH]; intros nulls st pre Hinv; simpl.
  - rewrite app_nil_r. exact Hinv.
  - replace (pre ++ (if hd false nulls then VNullStr else VStr s) :: dec_str r (tl nulls))
      with ((pre ++ [if hd false nulls then VNullStr else VStr s]) ++ dec_str r (tl nulls))
      by (rewrite <- app_assoc; reflexivity).
    apply IH. destruct (hd false nulls); [apply inv_add_null | apply inv_add_str]; exact Hinv.
Qed.

Lemma nullcount_nonneg n : forall nulls, 0 <= nullcount n nulls.
Proof. induction n as [|m IH]; intro nulls; simpl; [lia|]. specialize (IH (tl nulls)). destruct (hd false nulls); lia. Qed.

Lemma occ_dec_const_str k s n : forall nulls,
  occ (VStr k) (dec_const (KStr s) n nulls) =
  if bytes_eqb k s then Z.of_nat n - nullcount n nulls else 0.
Proof.
  induction n as [|m IH]; intro nulls; simpl dec_const; simpl nullcount.
  - simpl. destruct (bytes_eqb k s); reflexivity.
  - rewrite Nat2Z.inj_succ. destruct (hd false nulls); cbn -[Z.add Z.sub Z.of_nat]; rewrite IH;
      destruct (bytes_eqb k s); lia.
Qed.

Lemma occ_dec_const_null s n : forall nulls,
  occ VNullStr (dec_const (KStr s) n nulls) = nullcount n nulls.
Proof.
  induction n as [|m IH]; intro nulls; [reflexivity|].
  cbn -[Z.add Z.sub Z.of_nat]. destruct (hd false nulls); cbn -[Z.add Z.sub Z.of_nat]; rewrite IH; lia.
Qed.

Lemma dec_const_str_in s n : forall nulls v,
  In v (dec_const (KStr s) n nulls) -> v = VStr s \/ v = VNullStr.
Proof.
  induction n as [|m IH]; intros nulls v H; simpl in H; [contradiction|].
  destruct H as [H | H]; [|exact (IH _ _ H)].
  destruct (hd false nulls); simpl in H; subst; auto.
Qed.

Lemma step_const_str st pre s n nulls :
  inv st pre -> inv (count_fixed (KStr s) n nulls st) (pre ++ dec_const (KStr s) n nulls).
Proof.
  intros Hinv v. rewrite occ_app. pose proof (Hinv v) as Hv.
  assert (Hother : forall w, w <> VNullStr -> (forall s0, w <> VStr s0) -> occ w (dec_const (KStr s) n nulls) = 0).
  { intros w H1 H2. apply occ_zero. intros x Hx. destruct (dec_const_str_in _ _ _ _ Hx); subst; auto. }
  destruct v; simpl in *;
    try (rewrite Hother by (try discriminate; intros s0 E; discriminate); lia).
  - rewrite tbl_get_add, (occ_dec_const_str s0 s n nulls), Hv. reflexivity.
  - rewrite (occ_dec_const_null s n nulls), Hv. reflexivity.
Qed.

Lemma fold_add_notin k e : forall cnt T, ~ In k e ->
  tbl_get k (fold_left (fun t '(s, c) => tbl_add s c t) (combine e cnt) T) = tbl_get k T.
Proof.
  induction e as [|s e' IH]; intros cnt T Hn; simpl; [reflexivity|].
  destruct cnt as [|c cnt']; simpl; [reflexivity|].
  rewrite IH by (intro H; apply Hn; right; exact H).
  rewrite tbl_get_add. rewrite bytes_eqb_false; [lia|].
  intro E. apply Hn. left. symmetry. exact E.
Qed.

Lemma fold_add_nth e : forall cnt T i, NoDup e -> List.length cnt = List.length e -> (i < List.length e)%nat ->
  tbl_get (nth i e []) (fold_left (fun t '(s, c) => tbl_add s c t) (combine e cnt) T) =
  tbl_get (nth i e []) T + nth i cnt 0.
Proof.
  induction e as [|s e' IH]; intros cnt T i Hnd Hlen Hi; simpl in Hi; [lia|].
  destruct cnt as [|c cnt']; simpl in Hlen; [lia|].
  inversion Hnd as [|? ? Hnotin Hnd']; subst.
  destruct i as [|j]; simpl.
  - rewrite fold_add_notin by exact Hnotin. rewrite tbl_get_add, bytes_eqb_refl. reflexivity.
  - rewrite IH; [|exact Hnd' | lia | lia]. rewrite tbl_get_add.
    rewrite bytes_eqb_false; [lia|]. intro E. apply Hnotin. rewrite <- E. apply nth_In. lia.
Qed.

Lemma nodupb_NoDup e : nodupb e = true -> NoDup e.
Proof.
  induction e as [|x r IH]; simpl; intro H; [constructor|].
  apply andb_true_iff in H. destruct H as [H1 H2]. constructor; [|apply IH; exact H2].
  intro Hin. apply negb_true_iff in H1.
  assert (existsb (bytes_eqb x) r = true) as E; [|rewrite E in H1; discriminate].
  apply existsb_exists. exists x. split; [exact Hin | apply bytes_eqb_refl].
Qed.

Lemma dec_dict_in e idx : forall nulls,
  forallb (fun i => Nat.ltb i (List.length e)) idx = true ->
  forall v, In v (dec_dict_str e idx nulls) -> v = VNullStr \/ exists s, In s e /\ v = VStr s.
Proof.
  induction idx as [|i r IH]; intros nulls Hlt v Hin; simpl in *; [contradiction|].
  apply andb_true_iff in Hlt. destruct Hlt as [Hi Hr].
  destruct Hin as [E | Hin]; [|exact (IH _ Hr v Hin)].
  destruct (hd false nulls); [left; symmetry; exact E|].
  right. exists (nth i e []). split; [|symmetry; exact E]. apply nth_In. apply Nat.ltb_lt. exact Hi.
Qed.

Lemma tag_occ e k : NoDup e -> (k < List.length e)%nat ->
  forall idx nulls,
  forallb (fun i => Nat.ltb i (List.length e)) idx = true ->
  tagcount k idx nulls = occ (VStr (nth k e [])) (dec_dict_str e idx nulls).
Proof.
  intros Hnd Hk. induction idx as [|i r IH]; intros nulls Hlt; simpl; [reflexivity|].
  apply andb_true_iff in Hlt. destruct Hlt as [Hi Hr]. apply Nat.ltb_lt in Hi.
  rewrite (IH _ Hr). f_equal.
  destruct (hd false nulls); simpl; [reflexivity|].
  destruct (Nat.eqb i k) eqn:E.
  - apply Nat.eqb_eq in E. subst. rewrite bytes_eqb_refl. reflexivity.
  - apply Nat.eqb_neq in E. rewrite bytes_eqb_false; [reflexivity|].
    intro Heq. apply E. symmetry. apply (proj1 (NoDup_nth e []) Hnd k i Hk Hi Heq).
Qed.

Lemma occ_dec_dict_null e idx : forall nulls,
  occ VNullStr (dec_dict_str e idx nulls) = nullcount (List.length idx) nulls.
Proof.
  induction idx as [|i r IH]; intro nulls; [reflexivity|].
  cbn -[Z.add Z.sub Z.of_nat]. destruct (hd false nulls); cbn -[Z.add Z.sub Z.of_nat]; rewrite IH; lia.
Qed.

Lemma step_dict st pre e cnt idx nulls :
  inv st pre -> col_wfb (CDictStr e cnt idx nulls) = true ->
  inv (count_dict e cnt (List.length idx) nulls st) (pre ++ dec_dict_str e idx nulls).
Proof.
  intros Hinv Hwf v. simpl in Hwf.
  apply andb_true_iff in Hwf. destruct Hwf as [Hnd Hc]. unfold counts_okb in Hc.
  apply andb_true_iff in Hc. destruct Hc as [Hc Hcnt].
  apply andb_true_iff in Hc. destruct Hc as [Hlen Hlt].
  apply nodupb_NoDup in Hnd. apply Nat.eqb_eq in Hlen.
  rewrite occ_app. pose proof (Hinv v) as Hv.
  assert (Hother : forall w, w <> VNullStr -> (forall s0, w <> VStr s0) -> occ w (dec_dict_str e idx nulls) = 0).
  { intros w H1 H2. apply occ_zero. intros x Hx.
    destruct (dec_dict_in e idx nulls Hlt x Hx) as [E | [s0 [_ E]]]; subst; auto. }
  destruct v; simpl in *;
    try (rewrite Hother by (try discriminate; intros s0 E; discriminate); lia).
  - destruct (in_dec (list_eq_dec N.eq_dec) s e) as [Hin | Hnin].
    + destruct (In_nth _ _ [] Hin) as [i [Hi Hnth]]. subst s.
      rewrite fold_add_nth by assumption. rewrite Hv.
      rewrite <- (tag_occ e i Hnd Hi idx nulls Hlt).
      rewrite forallb_forall in Hcnt.
      assert (Hin' : In i (seq 0 (List.length e))) by (apply in_seq; split; [apply Nat.le_0_l | simpl; exact Hi]).
      specialize (Hcnt i Hin'). apply Z.eqb_eq in Hcnt. rewrite Hcnt. reflexivity.
    + rewrite fold_add_notin by exact Hnin. rewrite Hv.
      assert (occ (VStr s) (dec_dict_str e idx nulls) = 0) as ->; [|lia].
      apply occ_zero. intros x Hx.
      destruct (dec_dict_in e idx nulls Hlt x Hx) as [E | [s0 [Hs0 E]]]; subst; [discriminate|].
      intro E'. inversion E'. subst. contradiction.
  - rewrite occ_dec_dict_null, Hv. reflexivity.
Qed.

Lemma step_good st pre c :
  inv st pre -> good_col c ->
  exists st', cb_update st c = Some st' /\ inv st' (pre ++ decode c).
Proof.
  intros Hinv Hg. destruct c; simpl in Hg; try contradiction.
  - eexists. split; [reflexivity|]. simpl. apply step_plain. exact Hinv.
  - eexists. split; [reflexivity|]. simpl decode. apply step_dict; assumption.
  - destruct v; try contradiction.
    eexists. split; [reflexivity|]. simpl decode. apply step_const_str. exact Hinv.
Qed.

Lemma run_agrees cols : forall st pre,
  inv st pre -> Forall good_col cols ->
  exists st', cb_run st cols = Some st' /\ inv st' (pre ++ decode_all cols).
Proof.
  induction cols as [|c r IH]; intros st pre Hinv Hg; simpl.
  - exists st. split; [reflexivity|]. rewrite app_nil_r. exact Hinv.
  - inversion Hg as [|? ? Hc Hr]; subst.
    destruct (step_good st pre c Hinv Hc) as [st1 [Hu Hinv1]].
    rewrite Hu. destruct (IH st1 (pre ++ decode c) Hinv1 Hr) as [st2 [Hrun Hinv2]].
    exists st2. split; [exact Hrun|]. unfold decode_all in *. simpl. rewrite app_assoc. exact Hinv2.
Qed.

(* count() by <field>: whenever the field is string-typed in every record
   (null strings included), for any number of objects and record types, the
   vector operator does not panic and reports, for EVERY value, exactly its
   number of occurrences in the data (in particular a null(string) row with
   the number of nulls and no row for absent values). *)
Theorem count_by_agrees : forall cols,
  Forall good_col cols ->
  exists st, v_count_by cols = Some st /\
             forall v, row_count st v = occ v (decode_all cols).
Proof.
  intros cols Hg. unfold v_count_by.
  destruct (run_agrees cols cb_init [] (fun v => match v with VStr _ => eq_refl | _ => eq_refl end) Hg) as [st [Hrun Hinv]].
  exists st. split; [exact Hrun | exact Hinv].
Qed.

(* several legs: each leg emits its own table; the downstream (sequential)
   summarize adds the per-key counts. *)
Definition leg_count (leg : list col) (v : value) : Z :=
  match v_count_by leg with Some st => row_count st v | None => 0 end.

Fixpoint legs_total (legs : list (list col)) (v : value) : Z :=
  match legs with
  | [] => 0
  | l :: r => leg_count l v + legs_total r v
  end.

Theorem count_by_legs_compose : forall legs,
  Forall (Forall good_col) legs ->
  Forall (fun leg => v_count_by leg <> None) legs /\
  forall v, legs_total legs v = occ v (decode_all (List.concat legs)).
Proof.
  induction 1 as [|leg r Hleg Hr IH]; simpl.
  - split; [constructor | reflexivity].
  - destruct IH as [IH1 IH2]. destruct (count_by_agrees leg Hleg) as [st [Hrun Hinv]]. split.
    + constructor; [rewrite Hrun; discriminate | exact IH1].
    + intro v. rewrite decode_all_app, occ_app, <- IH2, <- Hinv.
      unfold leg_count. rewrite Hrun. reflexivity.
Qed.

(* Adding/removing vector copies or redistributing the objects over the legs
   does not change the answer: it only depends on the multiset of values. *)
Theorem count_by_vectors_irrelevant : forall legs seqvals,
  Forall (Forall good_col) legs ->
  Permutation seqvals (decode_all (List.concat legs)) ->
  forall v, legs_total legs v = occ v seqvals.
Proof.
  intros legs seqvals Hg Hp v.
  rewrite (proj2 (count_by_legs_compose legs Hg)). symmetry. apply occ_perm. exact Hp.
Qed.

(* non-vacuity: two dictionaries sharing keys (one with a null slot), a
   constant with a null slot and a plain column with a null slot *)
Example good_cols_example :
  Forall good_col [CDictStr [hex "61"; hex "62"] [2; 1] [0; 1; 0; 0]%nat [false; false; false; true];
                   CDictStr [hex "61"; hex "62"] [1; 1] [0; 1]%nat [];
                   CConst (KStr (hex "61")) 2 [false; true]; CStr [hex "61"; []] [false; true]].
Proof. repeat constructor. Qed.

(* ---- where the code still leaves the sequential semantics (open findings;
   each is replayed on a real lake by the harness) *)

Definition disagrees (cols : list col) : Prop :=
  match v_count_by cols with
  | None => True                                                      (* the query dies *)
  | Some st => exists v, row_count st v <> occ v (decode_all cols)
  end.

(* any non-string kind: panic *)
Theorem count_by_refuted_nonstring_panics :
  v_count_by [CNum NInt [1; 2] []] = None /\ v_count_by [CMissing 1] = None /\
  v_count_by [CDictNum NInt [1; 2] [1; 1] [0; 1]%nat []] = None.
Proof. repeat split. Qed.

(* a constant of another type is dropped silently; a null-typed constant is
   reported as null(string) *)
Theorem count_by_refuted_const :
  disagrees [CConst (KNum NInt 7) 3 []] /\ disagrees [CConst KNullV 2 []].
Proof.
  split.
  - exists (VNum NInt 7). vm_compute. discriminate.
  - exists VNull. vm_compute. discriminate.
Qed.

(* ---------------------------------------------------------------- Sum *)

Lemma two64_pos : 0 < two64. Proof. reflexivity. Qed.

Lemma wrap64_add a x : wrap64 (wrap64 a + wrap64 x) = wrap64 (a + x).
Proof.
  unfold wrap64.
  replace ((a + two63) mod two64 - two63 + ((x + two63) mod two64 - two63) + two63)
    with ((a + two63) mod two64 + ((x + two63) mod two64 - two63)) by ring.
  rewrite Zplus_mod_idemp_l.
  replace (a + two63 + ((x + two63) mod two64 - two63)) with ((x + two63) mod two64 + a) by ring.
  rewrite Zplus_mod_idemp_l.
  replace (x + two63 + a) with (a + x + two63) by ring. reflexivity.
Qed.

Lemma wrap64_idem a : wrap64 (wrap64 a) = wrap64 a.
Proof.
  unfold wrap64. replace ((a + two63) mod two64 - two63 + two63) with ((a + two63) mod two64) by ring.
  rewrite Zmod_mod. reflexivity.
Qed.

Lemma wrap64_add_l a x : wrap64 (wrap64 a + x) = wrap64 (a + x).
Proof.
  unfold wrap64.
  replace ((a + two63) mod two64 - two63 + x + two63) with ((a + two63) mod two64 + x) by ring.
  rewrite Zplus_mod_idemp_l. replace (a + two63 + x) with (a + x + two63) by ring. reflexivity.
Qed.

Lemma wrap64_add_r a x : wrap64 (a + wrap64 x) = wrap64 (a + x).
Proof. rewrite Z.add_comm, wrap64_add_l, Z.add_comm. reflexivity. Qed.

Lemma wrap64_add_l2 a x : wrap64 (wrap64 a + x) = wrap64 (a + x).
Proof. apply wrap64_add_l. Qed.

Definition zsum (l : list Z) : Z := fold_right Z.add 0 l.

Lemma zsum_app a b : zsum (a ++ b) = zsum a + zsum b.
Proof. induction a as [|x r IH]; simpl; [reflexivity | rewrite IH; lia]. Qed.

Lemma sum_vals_spec vals : forall T, sum_vals (wrap64 T) vals = wrap64 (T + zsum vals).
Proof.
  unfold sum_vals. induction vals as [|x r IH]; intro T; simpl.
  - f_equal. lia.
  - rewrite wrap64_add, IH. f_equal. lia.
Qed.

(* null slots of a loaded number vector hold 0 *)
Fixpoint nulls_zero (vals : list Z) (nulls : list bool) : Prop :=
  match vals with
  | [] => True
  | z :: r => (hd false nulls = true -> z = 0) /\ nulls_zero r (tl nulls)
  end.

Lemma ints_of_app a b : ints_of (a ++ b) = ints_of a ++ ints_of b.
Proof.
  induction a as [|x r IH]; simpl; [reflexivity|].
  destruct x as [| t z | | | | |]; try exact IH. destruct t; simpl; rewrite ?IH; reflexivity.
Qed.

Lemma ints_dec_num vals : forall nulls, nulls_zero vals nulls ->
  zsum (ints_of (dec_num NInt vals nulls)) = zsum vals.
Proof.
  induction vals as [|z r IH]; intros nulls H; simpl; [reflexivity|].
  destruct H as [H0 Hr]. destruct (hd false nulls) eqn:E; simpl.
  - rewrite (IH _ Hr), (H0 eq_refl). reflexivity.
  - rewrite (IH _ Hr). reflexivity.
Qed.

Lemma ints_dec_num_nonempty vals : forall nulls,
  ints_of (dec_num NInt vals nulls) = [] -> zsum vals = zsum vals.
Proof. reflexivity. Qed.

Lemma ints_dec_str vals : forall nulls, ints_of (dec_str vals nulls) = [].
Proof. induction vals as [|s r IH]; intro nulls; simpl; [reflexivity|]. destruct (hd false nulls); apply IH. Qed.

Lemma ints_dec_dict_str e idx : forall nulls, ints_of (dec_dict_str e idx nulls) = [].
Proof. induction idx as [|i r IH]; intro nulls; simpl; [reflexivity|]. destruct (hd false nulls); apply IH. Qed.

Lemma ints_repeat v n : (forall z, v <> VNum NInt z) -> ints_of (repeat v n) = [].
Proof.
  intro H. induction n as [|m IH]; simpl; [reflexivity|].
  destruct v as [| t z | | | | |]; try exact IH. destruct t; try exact IH. exfalso. apply (H z). reflexivity.
Qed.

Lemma zsum_dec_const_int z n : forall nulls,
  zsum (ints_of (dec_const (KNum NInt z) n nulls)) = z * (Z.of_nat n - nullcount n nulls).
Proof.
  induction n as [|m IH]; intro nulls; [simpl; lia|].
  rewrite Nat2Z.inj_succ. cbn -[Z.add Z.sub Z.mul Z.of_nat].
  destruct (hd false nulls); cbn -[Z.add Z.sub Z.mul Z.of_nat]; rewrite IH; lia.
Qed.

Lemma wrap64_mul_l z k : wrap64 (wrap64 z * k) = wrap64 (z * k).
Proof.
  unfold wrap64. f_equal.
  replace (((z + two63) mod two64 - two63) * k + two63) with ((z + two63) mod two64 * k + (two63 - two63 * k)) by ring.
  rewrite Zplus_mod, Zmult_mod_idemp_l, <- Zplus_mod. f_equal. ring.
Qed.

Lemma ints_dec_const v n : forall nulls, (forall t z, v <> KNum t z) -> ints_of (dec_const v n nulls) = [].
Proof.
  induction n as [|m IH]; intros nulls H; simpl; [reflexivity|].
  destruct v as [s | t z | |]; try (exfalso; apply (H t z); reflexivity);
    destruct (hd false nulls); simpl; apply IH; exact H.
Qed.

(* The class on which Sum is right: plain int64 vectors and int64 constants
   (any null mask) and the columns that hold no number at all (strings, missing
   fields), which both runtimes skip.  Not in the class: floats (ignored),
   uint64 (added as int64 and the result is always typed int64), other
   widths/durations (result type), dictionaries of numbers (correct in the
   code, checked by the correspondence, but not covered by this theorem). *)
Definition sum_good (c : col) : Prop :=
  match c with
  | CNum NInt vals nulls => nulls_zero vals nulls
  | CStr _ _ | CDictStr _ _ _ _ | CMissing _ => True
  | CConst (KStr _) _ _ | CConst KNullV _ _ | CConst (KNum NInt _) _ _ => True
  | _ => False
  end.

Lemma sum_step T c : sum_good c ->
  sum_update (wrap64 T) c = wrap64 (T + zsum (ints_of (decode c))).
Proof.
  intro H. destruct c; simpl in H; try contradiction; simpl.
  - rewrite ints_dec_str. simpl. f_equal. lia.
  - destruct t; try contradiction. simpl. rewrite sum_vals_spec, ints_dec_num by exact H. reflexivity.
  - rewrite ints_dec_dict_str. simpl. f_equal. lia.
  - destruct v as [s0 | t z | |]; try contradiction.
    + rewrite ints_dec_const by (intros; discriminate). simpl. f_equal. lia.
    + destruct t; try contradiction. simpl is_intlike. cbv iota.
      rewrite zsum_dec_const_int. rewrite wrap64_add.
      rewrite <- (wrap64_add_r T (wrap64 z * _)). rewrite wrap64_mul_l. rewrite wrap64_add_r. reflexivity.
    + rewrite ints_dec_const by (intros; discriminate). simpl. f_equal. lia.
  - rewrite ints_repeat by (intros; discriminate). simpl. f_equal. lia.
Qed.

Lemma sum_run cols : forall T, Forall sum_good cols ->
  fold_left sum_update cols (wrap64 T) = wrap64 (T + zsum (ints_of (decode_all cols))).
Proof.
  induction cols as [|c r IH]; intros T H; simpl.
  - f_equal. lia.
  - inversion H as [|? ? Hc Hr]; subst. rewrite sum_step by exact Hc. rewrite IH by exact Hr.
    unfold decode_all. simpl. rewrite ints_of_app, zsum_app. f_equal. lia.
Qed.

(* sum(<field>): on the good class, when the data holds at least one int64,
   the vector operator returns the sequential result (int64 wrap-around
   included). *)
Theorem sum_agrees : forall cols,
  Forall sum_good cols ->
  ints_of (decode_all cols) <> [] ->
  seq_sum_int (decode_all cols) = Some (v_sum cols).
Proof.
  intros cols Hg Hne. unfold seq_sum_int, v_sum.
  change 0 with (wrap64 0) at 2. rewrite sum_run by exact Hg.
  destruct (ints_of (decode_all cols)) eqn:E; [contradiction|]. reflexivity.
Qed.

Example sum_good_example :
  Forall sum_good [CNum NInt [5; 0; -7] [false; true; false]; CMissing 2; CConst (KNum NInt 5) 3 [false; true]; CStr [hex "61"] []] /\
  ints_of (decode_all [CNum NInt [5; 0; -7] [false; true; false]; CMissing 2; CConst (KNum NInt 5) 3 [false; true]; CStr [hex "61"] []]) <> [].
Proof. split; [repeat constructor; simpl; intuition discriminate | vm_compute; discriminate]. Qed.

(* no number at all: the sequential result is null, the vector result 0 *)
Theorem sum_refuted_no_values :
  seq_sum_int (decode_all [CMissing 2]) = None /\ v_sum [CMissing 2] = 0.
Proof. split; reflexivity. Qed.

(* floats are skipped: {1.5, 2.5} sums to 0 *)
Theorem sum_refuted_float_ignored :
  v_sum [CNum NFloat [4609434218613702656; 4612811918334230528] []] = 0.
Proof. reflexivity. Qed.

(* ---------------------------------------------------------------- planner *)

Theorem vectorized_only_with_all_vectors : forall sh par nobj nvec filt sliced,
  vectorized sh par nobj nvec filt sliced = true ->
  (1 < par)%N /\ (0 < nobj)%N /\ nvec = nobj /\ sh <> SOther /\ filt = false /\ sliced = false.
Proof.
  intros sh par nobj nvec filt sliced H. unfold vectorized in H.
  repeat (apply andb_true_iff in H; destruct H as [H ?]).
  repeat split; try lia.
  all: try (destruct sh; discriminate).
  all: try (destruct filt; simpl in *; [discriminate | reflexivity]).
  all: try (destruct sliced; simpl in *; [discriminate | reflexivity]).
Qed.

Theorem not_vectorized_without_vectors : forall sh par nobj nvec filt sliced,
  (nvec < nobj)%N -> vectorized sh par nobj nvec filt sliced = false.
Proof.
  intros sh par nobj nvec filt sliced H. unfold vectorized.
  assert ((nvec =? nobj)%N = false) as -> by lia.
  rewrite andb_false_r. reflexivity.
Qed.

(* ---------------------------------------------------------------- Head *)

Lemma head_scope_spec limit : forall batches count, (count < limit)%nat ->
  snd (head_scope limit count batches) = O /\
  nsum (fst (head_scope limit count batches)) = Nat.min (limit - count) (nsum batches).
Proof.
  induction batches as [|n r IH]; intros count Hc; simpl.
  - destruct (Nat.leb_spec limit count); [lia|]. simpl. split; [reflexivity | lia].
  - destruct (Nat.leb_spec limit count); [lia|].
    destruct (Nat.ltb_spec n (limit - count)).
    + destruct (IH (count + n)%nat ltac:(lia)) as [H1 H2].
      destruct (head_scope limit (count + n) r) as [o c]. simpl in *. split; [exact H1 | lia].
    + simpl. split; [reflexivity | lia].
Qed.

(* `over ... => (head N)`: every scope yields its first min(N, length) values,
   whatever the lengths of the earlier scopes (the count never leaks) *)
Theorem head_scopes_spec : forall limit scopes, (0 < limit)%nat ->
  map nsum (head_scopes limit O scopes) = map (fun s => Nat.min limit (nsum s)) scopes.
Proof.
  intros limit scopes Hl. induction scopes as [|s r IH]; simpl; [reflexivity|].
  destruct (head_scope_spec limit s O Hl) as [H1 H2].
  destruct (head_scope limit O s) as [o c]. simpl in *. subst c.
  rewrite IH. f_equal. rewrite H2. f_equal. lia.
Qed.
