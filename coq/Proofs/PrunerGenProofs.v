(* Tie T for C16: the operator tables that go2coq translates from
   compiler/optimizer/optimizer.go on every run (Gen/OptimizerGen.v) are the
   ones the hand-written model uses; hence the soundness theorem holds for the
   pruner built from the translated tables. *)
From ZV Require Import Base.Prelude Model.Pruner Gen.OptimizerGen Proofs.PrunerProofs.
Local Open Scope Z_scope.

Lemma gen_reverse_ok o : gen_reverseComparator o = Some (reverse_comparator o).
Proof. destruct o; reflexivity. Qed.

Lemma gen_range_ok o c : gen_rangePrunerPred o c = range_pruner_pred o c.
Proof. destruct o; reflexivity. Qed.

(* buildRangePruner over the translated tables *)
Fixpoint build_gen (p : pred) : option pexpr :=
  match p with
  | PAnd a b =>
    match build_gen a, build_gen b with
    | None, r => r
    | l, None => l
    | Some l, Some r => Some (XOr l r)
    end
  | POr a b =>
    match build_gen a, build_gen b with
    | Some l, Some r => Some (XAnd l r)
    | _, _ => None
    end
  | PKL o c => gen_rangePrunerPred o c
  | PLK o c => match gen_reverseComparator o with Some o' => gen_rangePrunerPred o' c | None => None end
  | PNot _ => None
  | POther _ => None
  end.

Lemma build_gen_ok p : build_gen p = build p.
Proof.
  induction p as [o c|o c|a IHa b IHb|a IHa b IHb|a IHa|i]; cbn [build_gen build]; try reflexivity.
  - rewrite gen_reverse_ok. apply gen_range_ok.
  - rewrite IHa, IHb. reflexivity.
  - rewrite IHa, IHb. reflexivity.
Qed.

Definition prune_gen (p : pred) (mn mx : key) : bool :=
  match build_gen p with Some x => peval x mn mx | None => false end.

Theorem pruner_sound_translated (oth : nat -> key -> tv) p mn mx k :
  cmpk mn k <= 0 -> cmpk k mx <= 0 ->
  prune_gen p mn mx = true -> is_true (eval oth p k) = false.
Proof.
  unfold prune_gen. rewrite build_gen_ok. apply (pruner_sound oth).
Qed.
