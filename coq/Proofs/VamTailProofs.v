From ZV Require Import Base.Prelude Model.VamTail.
Local Open Scope nat_scope.

Definition clen (vecs : list (list Z)) : nat := List.length (List.concat vecs).

(* invariant of the pull loop: the kept vectors are a suffix of what was seen,
   n is their size, something was dropped only when enough is kept, and the
   first kept vector is still needed *)
Definition TInv (limit : nat) (seen : list Z) (vecs : list (list Z)) (n : nat) : Prop :=
  n = clen vecs /\
  (exists pre, seen = pre ++ List.concat vecs /\ (pre = [] \/ limit <= n)) /\
  (forall v r, vecs = v :: r -> n - List.length v < limit).

Lemma clen_cons v r : clen (v :: r) = List.length v + clen r.
Proof. unfold clen. simpl. rewrite app_length. reflexivity. Qed.

Lemma drop_lead_inv limit : forall vecs n seen,
  n = clen vecs ->
  (exists pre, seen = pre ++ List.concat vecs /\ (pre = [] \/ limit <= n)) ->
  let '(vecs', n') := drop_lead limit vecs n in TInv limit seen vecs' n'.
Proof.
  induction vecs as [|v r IH]; intros n seen Hn [pre [Hseen Hpre]].
  - simpl. unfold TInv. split; [exact Hn|]. split.
    + exists pre. split; [exact Hseen|exact Hpre].
    + intros v r H; discriminate H.
  - cbn [drop_lead]. destruct (limit <=? n - List.length v) eqn:Hc.
    + apply Nat.leb_le in Hc. apply IH.
      * rewrite Hn, clen_cons. lia.
      * exists (pre ++ v). split.
        -- rewrite Hseen. simpl. rewrite app_assoc. reflexivity.
        -- right. exact Hc.
    + apply Nat.leb_gt in Hc. unfold TInv. split; [exact Hn|]. split.
      * exists pre. split; [exact Hseen|exact Hpre].
      * intros v0 r0 H. injection H as -> ->. exact Hc.
Qed.

Lemma tail_loop_inv limit : forall batches vecs n seen,
  TInv limit seen vecs n ->
  let '(vecs', n') := tail_loop limit batches vecs n in
  TInv limit (seen ++ List.concat batches) vecs' n'.
Proof.
  induction batches as [|b r IH]; intros vecs n seen HI.
  - simpl. rewrite app_nil_r. exact HI.
  - cbn [tail_loop].
    destruct HI as [Hn [[pre [Hseen Hpre]] _]].
    pose proof (drop_lead_inv limit (vecs ++ [b]) (n + List.length b) (seen ++ b)) as HD.
    destruct (drop_lead limit (vecs ++ [b]) (n + List.length b)) as [vecs' n'].
    assert (HI' : TInv limit (seen ++ b) vecs' n').
    { apply HD.
      - unfold clen. rewrite concat_app. simpl. rewrite app_nil_r, app_length.
        unfold clen in Hn. lia.
      - exists pre. split.
        + rewrite Hseen, concat_app. simpl. rewrite app_nil_r, app_assoc. reflexivity.
        + destruct Hpre as [Hp|Hp]; [left; exact Hp|right; lia]. }
    specialize (IH vecs' n' (seen ++ b) HI').
    destruct (tail_loop limit r vecs' n') as [v2 n2].
    simpl. rewrite app_assoc. exact IH.
Qed.

Lemma skipn_app_le {A} (k : nat) (a b : list A) :
  k <= List.length a -> skipn k (a ++ b) = skipn k a ++ b.
Proof.
  intros H. rewrite skipn_app. replace (k - List.length a) with 0 by lia. reflexivity.
Qed.

Lemma trim_spec limit seen vecs n :
  TInv limit seen vecs n -> List.concat (tail_trim limit vecs n) = lastn limit seen.
Proof.
  intros [Hn [[pre [Hseen Hpre]] Hhead]]. unfold tail_trim, lastn.
  subst seen. rewrite app_length. fold (clen vecs). rewrite <- Hn.
  destruct (limit <? n) eqn:Hc.
  - apply Nat.ltb_lt in Hc. destruct vecs as [|v r].
    + unfold clen in Hn. simpl in Hn. lia.
    + specialize (Hhead v r eq_refl). rewrite clen_cons in Hn.
      cbn [List.concat].
      rewrite skipn_app.
      replace (List.length pre + n - limit - List.length pre) with (n - limit) by lia.
      rewrite (skipn_all2 pre) by lia. cbn [app].
      rewrite skipn_app_le by lia. reflexivity.
  - apply Nat.ltb_ge in Hc. destruct Hpre as [Hp|Hp].
    + subst pre. simpl. replace (n - limit) with 0 by lia. reflexivity.
    + rewrite skipn_app.
      replace (List.length pre + n - limit) with (List.length pre) by lia.
      rewrite skipn_all, Nat.sub_diag. reflexivity.
Qed.

Theorem tail_scope_spec limit batches :
  List.concat (tail_scope limit batches) = lastn limit (List.concat batches).
Proof.
  unfold tail_scope.
  pose proof (tail_loop_inv limit batches [] 0 []) as H.
  destruct (tail_loop limit batches [] 0) as [vecs n].
  apply trim_spec. simpl in H. apply H.
  unfold TInv, clen. simpl. split; [reflexivity|]. split.
  - exists []. split; [reflexivity|left; reflexivity].
  - intros v r E; discriminate E.
Qed.

Theorem tail_scopes_spec limit scopes :
  map (@List.concat Z) (tail_scopes limit scopes) = map (fun s => lastn limit (List.concat s)) scopes.
Proof.
  unfold tail_scopes. rewrite map_map. apply map_ext. intros s. apply tail_scope_spec.
Qed.

(* no emitted vector is empty when every input vector is non-empty and limit > 0:
   the Pull protocol never hands out an empty view *)
Example tail_scope_example :
  tail_scope 3 [[1]; [2]; [3; 4; 5; 6; 7]]%Z = [[5; 6; 7]]%Z.
Proof. reflexivity. Qed.
