(* Tie T for C07: interpreting the table that go2coq translates from the type
   switch of Optimizer.concurrentPath on every run (Gen/ParallelizeGen.v) is the
   hand-written concurrent_path of Model/Optimizer.v; hence the theorems about
   positional operators hold for the translated text. *)
From ZV Require Import Base.Prelude Model.Dag Model.Optimizer Model.CpTable
     Gen.ParallelizeGen Proofs.OptimizerProofs.

Definition concurrent_path_gen : list op -> nat -> sortkeys -> nat * sortkeys * bool * bool :=
  cp_interp gen_concurrentPath_case gen_concurrentPath_final.

Lemma sk_nil_match {A} (l : sortkeys) (x y : sortkeys -> A) :
  (if sk_nil l then x [] else y l) = match l with [] => x [] | _ :: _ => y l end.
Proof. destruct l; reflexivity. Qed.

Theorem concurrent_path_gen_ok ops : forall k sk,
  concurrent_path_gen ops k sk = concurrent_path ops k sk.
Proof.
  unfold concurrent_path_gen.
  induction ops as [|o r IH]; intros k sk; [reflexivity|].
  destruct o as [sk0 f|e|a|a|a|a|a nf rv|n|n| |c| |i|l ks a d pi po|paths|e d| |i lk rk ld rd|i b|i|i];
    cbn [cp_interp kind_of gen_concurrentPath_case cp_exec cp_cond_val cp_keys_val
         v_sk v_new v_next concurrent_path];
    try reflexivity;
    try (match goal with |- context [negb (sk_nil sk) && sk_nil ?n] =>
           destruct (negb (sk_nil sk) && sk_nil n); [reflexivity|apply IH] end).
  - (* sort *)
    destruct (sort_keys_of_sort a rv); reflexivity.
  - (* summarize *)
    destruct (is_key_of_summarize ks sk); reflexivity.
Qed.

(* The positional-operator theorems, for the translated table. *)
Theorem positional_requires_order_translated o r k sk :
  positional_op o = true -> concurrent_path_gen (o :: r) k sk = (k, sk, true, true).
Proof. rewrite concurrent_path_gen_ok. apply positional_requires_order. Qed.

Theorem order_required_at_first_positional_translated pre o r k sk :
  positional_op o = true ->
  let '(_, _, required, _) := concurrent_path_gen (pre ++ o :: r) k sk in
  required = true \/ exists p, In p pre /\ (exists l ks a d pi po, p = OSummarize l ks a d pi po) \/
                                  In p pre /\ (exists a nf rv, p = OSort a nf rv).
Proof. rewrite concurrent_path_gen_ok. apply order_required_at_first_positional. Qed.

(* Directly on the translated table (independent of the hand-written model):
   every case of a positional operator kind is `return k, sortKeys, true, true`. *)
Definition positional_kind (k : cp_kind) : bool :=
  match k with
  | KFork | KScatter | KMirror | KHead | KTail | KUniq | KFuse | KJoin | KOutput => true
  | _ => false
  end.

Theorem positional_kinds_stop_translated k :
  positional_kind k = true -> gen_concurrentPath_case k = BRet IK KsKeep true true.
Proof. destruct k; intros H; try discriminate H; reflexivity. Qed.
