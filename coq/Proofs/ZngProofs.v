(* Proofs about the ZNG model: typedef/value syntax round trips, frame round
   trips, and the simulation between writer, reader and specification. *)
From ZV Require Import Base.Prelude Base.Uvarint Base.Zcode Model.Zng.
From Coq Require Import ZifyN ZifyNat ZifyBool.
Local Open Scope N_scope.

Definition B64 : N := 2 ^ 64.

(* ------------------------------------------------------------ small facts *)

Lemma len_length {A} (l : list A) : N.to_nat (len l) = List.length l.
Proof. unfold len. apply Nat2N.id. Qed.

Lemma len_zero_nil {A} (l : list A) : len l = 0 -> l = [].
Proof. destruct l; [reflexivity|]. rewrite len_cons. lia. Qed.

Lemma len_flat_map_cons {A} (f : A -> bytes) x l :
  len (flat_map f (x :: l)) = len (f x) + len (flat_map f l).
Proof. simpl. apply len_app. Qed.

(* ------------------------------------------------------------ counted strings, fields *)

Lemma read_cstr_roundtrip s rest :
  len s < B64 -> read_cstr (cstr s ++ rest) = Some (s, rest).
Proof.
  intros H. unfold read_cstr, cstr. rewrite <- app_assoc.
  rewrite uvarint_roundtrip by exact H.
  assert (L : (len (s ++ rest) <? len s) = false) by (rewrite len_app; lia).
  rewrite L. rewrite take_app_len, drop_app_len. reflexivity.
Qed.

Definition field_wf (f : bytes * N) : Prop := len (fst f) < B64 /\ snd f < B64.

Lemma read_field_roundtrip f rest :
  field_wf f -> read_field (enc_field f ++ rest) = Some (f, rest).
Proof.
  intros [H1 H2]. unfold read_field, enc_field. rewrite <- app_assoc.
  rewrite read_cstr_roundtrip by exact H1.
  rewrite uvarint_roundtrip by exact H2. destruct f; reflexivity.
Qed.

Lemma read_n_roundtrip {A} (rd : bytes -> option (A * bytes)) (enc : A -> bytes) (P : A -> Prop) :
  (forall x rest, P x -> rd (enc x ++ rest) = Some (x, rest)) ->
  forall xs rest, Forall P xs ->
    read_n rd (List.length xs) (flat_map enc xs ++ rest) = Some (xs, rest).
Proof.
  intros H xs. induction xs as [|x xs IH]; intros rest F; [reflexivity|].
  inversion F as [|? ? Px Fxs]; subst.
  simpl. rewrite <- app_assoc. rewrite H by exact Px. rewrite IH by exact Fxs. reflexivity.
Qed.

(* ------------------------------------------------------------ typedefs *)

Definition tdef_wf (d : tdef) : Prop :=
  match d with
  | DRecord fs => len fs < B64 /\ Forall field_wf fs
  | DArray i | DSet i | DError i => i < B64
  | DMap k v => k < B64 /\ v < B64
  | DUnion ts => 0 < len ts /\ len ts < B64 /\ Forall (fun i => i < B64) ts
  | DEnum ss => len ss < B64 /\ Forall (fun s => len s < B64) ss
  | DNamed n i => len n < B64 /\ i < B64
  end.

Lemma read_tdef_roundtrip d rest :
  tdef_wf d -> read_tdef (enc_tdef d ++ rest) = Some (d, rest).
Proof.
  destruct d as [fs|i|i|k v|ts|ss|i|n i]; simpl; intros H.
  - destruct H as [H1 H2]. rewrite <- app_assoc. rewrite uvarint_roundtrip by exact H1.
    rewrite len_length.
    rewrite (read_n_roundtrip read_field enc_field field_wf read_field_roundtrip) by exact H2.
    reflexivity.
  - rewrite uvarint_roundtrip by exact H. reflexivity.
  - rewrite uvarint_roundtrip by exact H. reflexivity.
  - destruct H as [H1 H2]. rewrite <- app_assoc.
    rewrite uvarint_roundtrip by exact H1. rewrite uvarint_roundtrip by exact H2. reflexivity.
  - destruct H as [H0 [H1 H2]]. rewrite <- app_assoc. rewrite uvarint_roundtrip by exact H1.
    assert (E : (len ts =? 0) = false) by lia. rewrite E.
    rewrite len_length.
    rewrite (read_n_roundtrip read_uvarint uvarint (fun i => i < B64)) by
        (try exact H2; intros; apply uvarint_roundtrip; assumption).
    reflexivity.
  - destruct H as [H1 H2]. rewrite <- app_assoc. rewrite uvarint_roundtrip by exact H1.
    rewrite len_length.
    rewrite (read_n_roundtrip read_cstr cstr (fun s => len s < B64)) by
        (try exact H2; intros; apply read_cstr_roundtrip; assumption).
    reflexivity.
  - rewrite uvarint_roundtrip by exact H. reflexivity.
  - destruct H as [H1 H2]. rewrite <- app_assoc.
    rewrite read_cstr_roundtrip by exact H1. rewrite uvarint_roundtrip by exact H2. reflexivity.
Qed.

Lemma enc_tdef_cons d : exists c tl, enc_tdef d = c :: tl.
Proof. destruct d; simpl; eauto. Qed.

Lemma enc_tdefs_nil_inv ds : enc_tdefs ds = [] -> ds = [].
Proof.
  destruct ds as [|d ds]; [reflexivity|]. simpl.
  destruct (enc_tdef_cons d) as [c [tl E]]. rewrite E. discriminate.
Qed.

Lemma dec_tdefs_fuel_ok :
  forall ds f, Forall tdef_wf ds -> (List.length (enc_tdefs ds) <= f)%nat ->
    dec_tdefs_fuel f (enc_tdefs ds) = Some ds.
Proof.
  induction ds as [|d ds IH]; intros f F L.
  - destruct f; reflexivity.
  - inversion F as [|? ? Wd Wds]; subst.
    simpl enc_tdefs in *.
    destruct (enc_tdef_cons d) as [c [tl E]].
    rewrite app_length in L.
    assert (L1 : (1 <= List.length (enc_tdef d))%nat) by (rewrite E; simpl; lia).
    destruct f as [|f]; [lia|].
    assert (U : dec_tdefs_fuel (S f) (enc_tdef d ++ enc_tdefs ds) =
                match read_tdef (enc_tdef d ++ enc_tdefs ds) with
                | None => None
                | Some (d', r) => match dec_tdefs_fuel f r with None => None | Some ds' => Some (d' :: ds') end
                end).
    { rewrite E. reflexivity. }
    rewrite U. rewrite read_tdef_roundtrip by exact Wd.
    rewrite IH by (try exact Wds; lia). reflexivity.
Qed.

Theorem tdefs_roundtrip ds :
  Forall tdef_wf ds -> dec_tdefs (enc_tdefs ds) = Some ds.
Proof. intros F. unfold dec_tdefs. apply dec_tdefs_fuel_ok; [exact F|lia]. Qed.

(* ------------------------------------------------------------ values *)

Definition val_wf (v : value) : Prop := fst v < B64 /\ body_ok (snd v).

Lemma read_val_roundtrip v rest :
  val_wf v -> read_val (enc_val v ++ rest) = Some (v, rest).
Proof.
  intros [H1 H2]. unfold read_val, enc_val. rewrite <- app_assoc.
  rewrite uvarint_roundtrip by exact H1. rewrite zcode_roundtrip by exact H2.
  destruct v; reflexivity.
Qed.

Lemma enc_val_cons v : exists c tl, enc_val v = c :: tl.
Proof.
  unfold enc_val. pose proof (uvarint_nonempty (fst v)) as NE.
  destruct (uvarint (fst v)) as [|c tl]; [congruence|]. simpl. eauto.
Qed.

Lemma enc_vals_nil_inv vs : enc_vals vs = [] -> vs = [].
Proof.
  destruct vs as [|v vs]; [reflexivity|]. simpl.
  destruct (enc_val_cons v) as [c [tl E]]. rewrite E. discriminate.
Qed.

Lemma dec_vals_fuel_ok :
  forall vs f, Forall val_wf vs -> (List.length (enc_vals vs) <= f)%nat ->
    dec_vals_fuel f (enc_vals vs) = Some vs.
Proof.
  induction vs as [|v vs IH]; intros f F L.
  - destruct f; reflexivity.
  - inversion F as [|? ? Wv Wvs]; subst.
    simpl enc_vals in *.
    destruct (enc_val_cons v) as [c [tl E]].
    rewrite app_length in L.
    assert (L1 : (1 <= List.length (enc_val v))%nat) by (rewrite E; simpl; lia).
    destruct f as [|f]; [lia|].
    assert (U : dec_vals_fuel (S f) (enc_val v ++ enc_vals vs) =
                match read_val (enc_val v ++ enc_vals vs) with
                | None => None
                | Some (v', r) => match dec_vals_fuel f r with None => None | Some vs' => Some (v' :: vs') end
                end).
    { rewrite E. reflexivity. }
    rewrite U. rewrite read_val_roundtrip by exact Wv.
    rewrite IH by (try exact Wvs; lia). reflexivity.
Qed.

Theorem vals_roundtrip vs :
  Forall val_wf vs -> dec_vals (enc_vals vs) = Some vs.
Proof. intros F. unfold dec_vals. apply dec_vals_fuel_ok; [exact F|lia]. Qed.

(* ------------------------------------------------------------ frames *)

Section Frames.

Variable lz4c : bytes -> option bytes.
Variable lz4d : bytes -> N -> option bytes.
(* the only facts about LZ4 that are used *)
Hypothesis lz4_ok : forall b z, lz4c b = Some z -> lz4d z (len b) = Some b.
Hypothesis lz4_len : forall b z, lz4c b = Some z -> len z <= len b.

Lemma read_frame_shorter code r payload rest :
  read_frame lz4d code r = Some (payload, rest) -> (List.length rest <= List.length r)%nat.
Proof.
  unfold read_frame.
  destruct (read_uvarint r) as [[v r1]|] eqn:U; [|discriminate].
  apply read_uvarint_shorter in U.
  destruct ((code / 64) mod 2 =? 0).
  - destruct (len r1 <? v * 16 + code mod 16); [discriminate|].
    intros H; inversion H; subst. pose proof (drop_length (v * 16 + code mod 16) r1). lia.
  - destruct r1 as [|fmt r2]; [discriminate|].
    destruct (read_uvarint r2) as [[size r3]|] eqn:U2; [|discriminate].
    apply read_uvarint_shorter in U2.
    destruct (v * 16 + code mod 16 <? 1 + size_of_uvarint size); [discriminate|].
    destruct (len r3 <? v * 16 + code mod 16 - (1 + size_of_uvarint size)); [discriminate|].
    destruct (negb (fmt =? 0)); [discriminate|].
    destruct (lz4d _ size) as [u|]; [|discriminate].
    destruct (len u =? size); [|discriminate].
    intros H; injection H as _ <-.
    match goal with |- context [drop ?k r3] => pose proof (drop_length k r3) end.
    simpl in U. lia.
Qed.

(* enough fuel is as good as any other sufficient amount *)
Lemma parse_fuel_any :
  forall f1 f2 st bs, (List.length bs <= f1)%nat -> (List.length bs <= f2)%nat ->
    parse_fuel lz4d f1 st bs = parse_fuel lz4d f2 st bs.
Proof.
  induction f1 as [|f1 IH]; intros f2 st bs L1 L2.
  - destruct bs; [|simpl in L1; lia]. destruct f2; reflexivity.
  - destruct bs as [|code r]; [destruct f2; reflexivity|].
    destruct f2 as [|f2]; [simpl in L2; lia|].
    simpl in L1, L2. simpl.
    destruct (code =? 255).
    + rewrite (IH f2) by lia. reflexivity.
    + destruct (128 <=? code); [reflexivity|].
      destruct (read_frame lz4d code r) as [[payload rest]|] eqn:RF; [|reflexivity].
      apply read_frame_shorter in RF.
      destruct (frame_action _ payload st) as [st'|]; [|reflexivity].
      apply IH; lia.
Qed.

Lemma parse_from_step_eos st r :
  parse_from lz4d st (255 :: r) = option_map (cons st) (parse_from lz4d r_init r).
Proof.
  unfold parse_from. simpl. destruct (parse_fuel lz4d (List.length r) r_init r); reflexivity.
Qed.

Lemma parse_from_step_frame st code r payload rest st' :
  (code =? 255) = false -> (128 <=? code) = false ->
  read_frame lz4d code r = Some (payload, rest) ->
  frame_action ((code / 16) mod 4) payload st = Some st' ->
  parse_from lz4d st (code :: r) = parse_from lz4d st' rest.
Proof.
  intros E1 E2 RF FA. unfold parse_from. simpl. rewrite E1, E2, RF, FA.
  apply read_frame_shorter in RF. apply parse_fuel_any; lia.
Qed.

Lemma read_frame_plain t b rest :
  t < 4 -> len b < B64 ->
  read_frame lz4d (t * 16 + len b mod 16) (uvarint (len b / 16) ++ b ++ rest) = Some (b, rest).
Proof.
  intros Ht Hb. unfold read_frame.
  rewrite uvarint_roundtrip by (unfold B64 in Hb; lia).
  assert (C : ((t * 16 + len b mod 16) / 64) mod 2 =? 0 = true) by lia.
  rewrite C.
  assert (E : len b / 16 * 16 + (t * 16 + len b mod 16) mod 16 = len b) by lia.
  rewrite E.
  assert (L : (len (b ++ rest) <? len b) = false) by (rewrite len_app; lia).
  rewrite L, take_app_len, drop_app_len. reflexivity.
Qed.

Lemma read_frame_comp t b z rest :
  t < 4 -> len b < B64 -> lz4c b = Some z ->
  let zz := len z + 1 + size_of_uvarint (len b) in
  read_frame lz4d (t * 16 + zz mod 16 + 64)
             (uvarint (zz / 16) ++ [0] ++ uvarint (len b) ++ z ++ rest) = Some (b, rest).
Proof.
  intros Ht Hb Hz zz. unfold read_frame.
  pose proof (lz4_len _ _ Hz) as LZ.
  pose proof (size_of_uvarint_le (len b)) as SZ.
  rewrite uvarint_roundtrip by (unfold B64 in Hb; lia).
  assert (C : ((t * 16 + zz mod 16 + 64) / 64) mod 2 =? 0 = false) by lia.
  rewrite C.
  simpl app. cbv iota beta.
  rewrite uvarint_roundtrip by exact Hb.
  assert (E : zz / 16 * 16 + (t * 16 + zz mod 16 + 64) mod 16 = zz) by lia.
  rewrite E.
  assert (E1 : (zz <? 1 + size_of_uvarint (len b)) = false) by lia. rewrite E1.
  assert (E2 : zz - (1 + size_of_uvarint (len b)) = len z) by lia. rewrite E2.
  assert (E3 : (len (z ++ rest) <? len z) = false) by (rewrite len_app; lia). rewrite E3.
  simpl negb. cbv iota.
  rewrite take_app_len, drop_app_len.
  rewrite (lz4_ok _ _ Hz). rewrite N.eqb_refl. reflexivity.
Qed.

(* a block written by writeBlock is consumed as one frame *)
Lemma parse_block compress t b rest st st' :
  t < 3 -> b <> [] -> len b < B64 ->
  frame_action t b st = Some st' ->
  parse_from lz4d st (write_block lz4c compress t b ++ rest) = parse_from lz4d st' rest.
Proof.
  intros Ht NE Hb FA. unfold write_block.
  destruct b as [|x b']; [congruence|].
  set (b := x :: b') in *.
  destruct (if compress then lz4c b else None) as [z|] eqn:CZ.
  - assert (Hz : lz4c b = Some z) by (destruct compress; [exact CZ|discriminate]).
    unfold comp_header. cbv zeta.
    set (zz := len z + 1 + size_of_uvarint (len b)).
    simpl app. rewrite <- !app_assoc.
    eapply parse_from_step_frame.
    + lia.
    + lia.
    + apply (read_frame_comp t b z rest); [lia|exact Hb|exact Hz].
    + replace ((t * 16 + zz mod 16 + 64) / 16 mod 4) with t by lia. exact FA.
  - unfold header. simpl app. rewrite <- !app_assoc.
    eapply parse_from_step_frame.
    + lia.
    + lia.
    + apply read_frame_plain; [lia|exact Hb].
    + replace ((t * 16 + len b mod 16) / 16 mod 4) with t by lia. exact FA.
Qed.

Lemma write_block_nonempty compress t b :
  b <> [] -> write_block lz4c compress t b <> [].
Proof.
  intros NE. unfold write_block. destruct b; [congruence|].
  destruct (if compress then lz4c (n :: b) else None); unfold comp_header, header; discriminate.
Qed.

End Frames.

(* ------------------------------------------------------------ writer / reader / specification *)

Definition op_bytes (o : op) : N :=
  match o with
  | OWrite tds id body => len (enc_tdefs tds) + len (enc_val (id, body))
  | OEnd => 0
  | OControl f b => 1 + len b
  end.

Definition ops_bytes (ops : list op) : N := fold_right (fun o a => op_bytes o + a) 0 ops.

Definition op_wf (o : op) : Prop :=
  match o with
  | OWrite tds id body => Forall tdef_wf tds /\ val_wf (id, body)
  | _ => True
  end.

(* every number fits Go's uint64 and the whole output is shorter than 2^64 bytes *)
Definition ops_wf (ops : list op) : Prop := Forall op_wf ops /\ ops_bytes ops < B64.

Definition cur (R : rstate) (pd : list tdef) (pv : list value) : stream :=
  (fst R ++ pd, snd R ++ map val_item pv).

Definition pend (st : wstate) : N := len (w_types st) + len (w_values st).

(* writer state st, reader state R (what has been flushed of the current
   stream), pending typedefs pd and values pv still in the writer's buffers *)
Record inv (st : wstate) (R : rstate) (pd : list tdef) (pv : list value) : Prop := {
  i_types : w_types st = enc_tdefs pd;
  i_values : w_values st = enc_vals pv;
  i_dirty : w_dirty st = negb (is_empty R);
  i_pd : Forall tdef_wf pd;
  i_pv : Forall val_wf pv
}.

Lemma cur_nil R : cur R [] [] = R.
Proof. unfold cur. simpl. rewrite !app_nil_r. destruct R; reflexivity. Qed.

Lemma option_map_app_nil {A} (x : option (list A)) : option_map (app []) x = x.
Proof. destruct x; reflexivity. Qed.

Lemma option_map_app_app {A} (a b : list A) x :
  option_map (app a) (option_map (app b) x) = option_map (app (a ++ b)) x.
Proof. destruct x; simpl; [rewrite app_assoc|]; reflexivity. Qed.

Lemma nonempty_true b : b <> [] -> nonempty b = true.
Proof. destruct b; [congruence|reflexivity]. Qed.

Lemma is_empty_cur R pd pv :
  is_empty (cur R pd pv) =
  is_empty R && (match pd with [] => true | _ => false end) && (match pv with [] => true | _ => false end).
Proof.
  destruct R as [d i]. unfold cur. simpl.
  destruct d; simpl; [|reflexivity].
  destruct pd; simpl; [|destruct i; reflexivity].
  destruct i; simpl; [|reflexivity].
  destruct pv; reflexivity.
Qed.

Section Sim.

Variable lz4c : bytes -> option bytes.
Variable lz4d : bytes -> N -> option bytes.
Hypothesis lz4_ok : forall b z, lz4c b = Some z -> lz4d z (len b) = Some b.
Hypothesis lz4_len : forall b z, lz4c b = Some z -> len z <= len b.

Section OneWriter.

Variable compress : bool.
Variable thresh : N.

Notation wblock := (write_block lz4c compress).
Notation pfrom := (parse_from lz4d).
Notation step := (w_step lz4c compress thresh).
Notation run := (w_run lz4c compress thresh).
Notation flush := (w_flush lz4c compress).

Lemma types_block R pd rest :
  Forall tdef_wf pd -> len (enc_tdefs pd) < B64 ->
  pfrom R (wblock 0 (enc_tdefs pd) ++ rest) = pfrom (fst R ++ pd, snd R) rest.
Proof.
  intros W L. destruct pd as [|d pd'].
  - simpl. rewrite app_nil_r. destruct R; reflexivity.
  - apply (parse_block lz4c lz4d lz4_ok lz4_len); [lia| |exact L|].
    + intros E. apply enc_tdefs_nil_inv in E. discriminate.
    + unfold frame_action. rewrite tdefs_roundtrip by exact W. reflexivity.
Qed.

Lemma values_block R pv rest :
  Forall val_wf pv -> len (enc_vals pv) < B64 ->
  pfrom R (wblock 1 (enc_vals pv) ++ rest) = pfrom (fst R, snd R ++ map val_item pv) rest.
Proof.
  intros W L. destruct pv as [|v pv'].
  - simpl. rewrite app_nil_r. destruct R; reflexivity.
  - apply (parse_block lz4c lz4d lz4_ok lz4_len); [lia| |exact L|].
    + intros E. apply enc_vals_nil_inv in E. discriminate.
    + unfold frame_action. rewrite vals_roundtrip by exact W. reflexivity.
Qed.

Lemma flush_parse st R pd pv rest :
  inv st R pd pv -> pend st < B64 ->
  pfrom R (snd (flush st) ++ rest) = pfrom (cur R pd pv) rest.
Proof.
  intros I P. destruct I as [It Iv Id Wd Wv]. unfold pend in P.
  unfold w_flush. simpl snd. rewrite It, Iv in *. rewrite <- app_assoc.
  rewrite types_block by (try exact Wd; lia).
  rewrite values_block by (try exact Wv; lia).
  reflexivity.
Qed.

Lemma flush_inv st R pd pv :
  inv st R pd pv -> inv (fst (flush st)) (cur R pd pv) [] [].
Proof.
  intros I. destruct I as [It Iv Id Wd Wv].
  unfold w_flush. simpl fst.
  constructor; [reflexivity|reflexivity| |constructor|constructor].
  cbn [w_dirty]. rewrite Id, It, Iv, is_empty_cur.
  destruct pd as [|d pd'], pv as [|v pv']; simpl.
  - rewrite orb_false_r, !andb_true_r. reflexivity.
  - rewrite nonempty_true.
    + rewrite orb_true_r, andb_false_r. reflexivity.
    + apply write_block_nonempty. intros E. apply (enc_vals_nil_inv (v :: pv')) in E. discriminate.
  - rewrite app_nil_r. rewrite nonempty_true.
    + rewrite orb_true_r, andb_false_r. reflexivity.
    + apply write_block_nonempty. intros E. apply (enc_tdefs_nil_inv (d :: pd')) in E. discriminate.
  - rewrite nonempty_true.
    + rewrite orb_true_r, andb_false_r. reflexivity.
    + intros E. apply app_eq_nil in E. destruct E as [E _].
      revert E. apply write_block_nonempty. intros E. apply (enc_tdefs_nil_inv (d :: pd')) in E. discriminate.
Qed.

Lemma flush_pend st : pend (fst (flush st)) = 0.
Proof. reflexivity. Qed.

Lemma is_empty_snoc (d : list tdef) (i : list item) x : is_empty (d, i ++ [x]) = false.
Proof. destruct d; [|reflexivity]. destruct i; reflexivity. Qed.

(* one writer operation: the reader, fed the bytes it produces, advances exactly as the specification does *)
Lemma step_sim o st R pd pv :
  inv st R pd pv -> op_wf o -> pend st + op_bytes o < B64 ->
  exists done R' pd' pv',
    inv (fst (step st o)) R' pd' pv' /\
    s_step (cur R pd pv) o = (done, cur R' pd' pv') /\
    (forall rest, pfrom R (snd (step st o) ++ rest) = option_map (app done) (pfrom R' rest)) /\
    pend (fst (step st o)) <= pend st + op_bytes o.
Proof.
  intros I W P.
  destruct o as [tds id body| |fmt b].
  - (* Write *)
    destruct W as [Wt Wv].
    set (st1 := {| w_types := w_types st ++ enc_tdefs tds;
                   w_values := w_values st ++ enc_val (id, body);
                   w_dirty := w_dirty st |}).
    assert (I1 : inv st1 R (pd ++ tds) (pv ++ [(id, body)])).
    { destruct I as [It Iv Id Wd Wvv]. constructor; simpl.
      - rewrite It. unfold enc_tdefs. rewrite flat_map_app. reflexivity.
      - rewrite Iv. unfold enc_vals. rewrite flat_map_app. simpl. rewrite app_nil_r. reflexivity.
      - exact Id.
      - apply Forall_app; auto.
      - apply Forall_app; auto. }
    assert (P1 : pend st1 = pend st + op_bytes (OWrite tds id body)).
    { unfold pend, st1. simpl. rewrite !len_app. lia. }
    assert (C1 : cur R (pd ++ tds) (pv ++ [(id, body)]) =
                 (fst (cur R pd pv) ++ tds, snd (cur R pd pv) ++ [IVal id body])).
    { unfold cur. simpl. rewrite map_app. simpl. rewrite !app_assoc. reflexivity. }
    unfold w_step. fold st1.
    destruct ((thresh <=? len (w_values st1)) || (thresh <=? len (w_types st1))).
    + exists [], (cur R (pd ++ tds) (pv ++ [(id, body)])), [], [].
      split; [apply flush_inv; exact I1|].
      split; [cbn [s_step]; rewrite cur_nil, C1; reflexivity|].
      split.
      * intros rest. rewrite option_map_app_nil. apply flush_parse; [exact I1|lia].
      * rewrite flush_pend. lia.
    + exists [], R, (pd ++ tds), (pv ++ [(id, body)]).
      split; [exact I1|].
      split; [cbn [s_step]; rewrite C1; reflexivity|].
      split.
      * intros rest. simpl. rewrite option_map_app_nil. reflexivity.
      * cbn [fst]. lia.
  - (* EndStream *)
    cbn [op_bytes] in P.
    pose proof (flush_inv st R pd pv I) as I1.
    pose proof (fun rest => flush_parse st R pd pv rest I ltac:(lia)) as F1.
    unfold w_step.
    destruct (flush st) as [st1 out] eqn:FL. cbn [fst] in I1. cbn [snd] in F1.
    destruct (w_dirty st1) eqn:D.
    + assert (NE : is_empty (cur R pd pv) = false).
      { destruct I1 as [_ _ Id _ _]. rewrite D in Id. destruct (is_empty (cur R pd pv)); [discriminate|reflexivity]. }
      exists [cur R pd pv], r_init, [], [].
      split; [constructor; simpl; try reflexivity; constructor|].
      split; [cbn [s_step]; rewrite NE; reflexivity|].
      split.
      * intros rest. cbn [snd]. rewrite <- app_assoc. rewrite F1. simpl app.
        rewrite parse_from_step_eos. reflexivity.
      * apply N.le_0_l.
    + assert (E : is_empty (cur R pd pv) = true).
      { destruct I1 as [_ _ Id _ _]. rewrite D in Id. destruct (is_empty (cur R pd pv)); [reflexivity|discriminate]. }
      exists [], (cur R pd pv), [], [].
      split; [exact I1|].
      split; [cbn [s_step]; rewrite E, cur_nil; reflexivity|].
      split.
      * intros rest. cbn [snd]. rewrite F1. rewrite option_map_app_nil. reflexivity.
      * cbn [fst]. replace st1 with (fst (flush st)) by (rewrite FL; reflexivity).
        rewrite flush_pend. lia.
  - (* WriteControl *)
    cbn [op_bytes] in P.
    pose proof (flush_inv st R pd pv I) as I1.
    pose proof (fun rest => flush_parse st R pd pv rest I ltac:(lia)) as F1.
    unfold w_step.
    destruct (flush st) as [st1 out] eqn:FL. cbn [fst] in I1. cbn [snd] in F1.
    set (R1 := cur R pd pv) in *.
    exists [], (fst R1, snd R1 ++ [ICtl fmt b]), [], [].
    split.
    { constructor; [reflexivity|reflexivity| |constructor|constructor].
      cbn [w_dirty]. rewrite is_empty_snoc. reflexivity. }
    split; [cbn [s_step]; rewrite cur_nil; reflexivity|].
    split.
    + intros rest. cbn [snd]. rewrite <- app_assoc. rewrite F1.
      rewrite option_map_app_nil.
      apply (parse_block lz4c lz4d lz4_ok lz4_len); [lia|discriminate| |reflexivity].
      rewrite len_cons. lia.
    + apply N.le_0_l.
Qed.

Lemma run_sim ops :
  forall st R pd pv,
    inv st R pd pv -> Forall op_wf ops -> pend st + ops_bytes ops < B64 ->
    exists done R' pd' pv',
      inv (fst (run st ops)) R' pd' pv' /\
      s_run (cur R pd pv) ops = (done, cur R' pd' pv') /\
      (forall rest, pfrom R (snd (run st ops) ++ rest) = option_map (app done) (pfrom R' rest)) /\
      pend (fst (run st ops)) <= pend st + ops_bytes ops.
Proof.
  induction ops as [|o ops IH]; intros st R pd pv I W P.
  - exists [], R, pd, pv. simpl. split; [exact I|]. split; [reflexivity|].
    split; [intros rest; rewrite option_map_app_nil; reflexivity|lia].
  - inversion W as [|? ? Wo Wops]; subst.
    change (ops_bytes (o :: ops)) with (op_bytes o + ops_bytes ops) in *.
    destruct (step_sim o st R pd pv I Wo ltac:(lia)) as [d1 [R1 [pd1 [pv1 [I1 [S1 [F1 B1]]]]]]].
    cbn [w_run s_run].
    destruct (step st o) as [st1 out1] eqn:ST. cbn [fst snd] in *.
    destruct (IH st1 R1 pd1 pv1 I1 Wops ltac:(lia)) as [d2 [R2 [pd2 [pv2 [I2 [S2 [F2 B2]]]]]]].
    destruct (run st1 ops) as [st2 out2] eqn:RN. cbn [fst snd] in *.
    rewrite S1, S2.
    exists (d1 ++ d2), R2, pd2, pv2.
    split; [exact I2|]. split; [reflexivity|].
    split.
    + intros rest. rewrite <- app_assoc. rewrite F1, F2. apply option_map_app_app.
    + lia.
Qed.

End OneWriter.
End Sim.

(* ------------------------------------------------------------ the theorems *)

Lemma ops_bytes_app a b : ops_bytes (a ++ b) = ops_bytes a + ops_bytes b.
Proof.
  induction a as [|o a IH]; [reflexivity|].
  change (ops_bytes ((o :: a) ++ b)) with (op_bytes o + ops_bytes (a ++ b)).
  change (ops_bytes (o :: a)) with (op_bytes o + ops_bytes a). lia.
Qed.

Lemma s_run_end ops : forall c, is_empty (snd (s_run c (ops ++ [OEnd]))) = true.
Proof.
  induction ops as [|o ops IH]; intros c.
  - simpl. destruct (is_empty c) eqn:E; simpl; [exact E|reflexivity].
  - simpl. destruct (s_step c o) as [d1 c1]. specialize (IH c1).
    destruct (s_run c1 (ops ++ [OEnd])) as [d2 c2]. exact IH.
Qed.

Lemma is_empty_true s : is_empty s = true -> s = r_init.
Proof. destruct s as [d i]. destruct d; [|discriminate]. destruct i; [reflexivity|discriminate]. Qed.

Definition item_of (o : op) : list item :=
  match o with
  | OWrite _ id body => [IVal id body]
  | OEnd => []
  | OControl f b => [ICtl f b]
  end.

Definition defs_of (o : op) : list tdef :=
  match o with OWrite tds _ _ => tds | _ => [] end.

Lemma s_run_items ops : forall c,
  flat_map snd (fst (s_run c ops)) ++ snd (snd (s_run c ops)) = snd c ++ flat_map item_of ops.
Proof.
  induction ops as [|o ops IH]; intros c.
  - simpl. rewrite app_nil_r. reflexivity.
  - cbn [s_run]. destruct (s_step c o) as [d1 c1] eqn:S1. specialize (IH c1).
    destruct (s_run c1 ops) as [d2 c2]. cbn [fst snd] in *.
    rewrite flat_map_app, <- app_assoc.
    etransitivity; [apply f_equal; exact IH|].
    destruct o as [tds id body| |f b]; cbn [s_step] in S1.
    + inversion S1; subst. simpl. rewrite <- app_assoc. reflexivity.
    + destruct (is_empty c) eqn:E.
      * inversion S1; subst. reflexivity.
      * inversion S1; subst. simpl. rewrite app_nil_r. reflexivity.
    + inversion S1; subst. simpl. rewrite <- app_assoc. reflexivity.
Qed.

Lemma s_run_defs ops : forall c,
  flat_map fst (fst (s_run c ops)) ++ fst (snd (s_run c ops)) = fst c ++ flat_map defs_of ops.
Proof.
  induction ops as [|o ops IH]; intros c.
  - simpl. rewrite app_nil_r. reflexivity.
  - cbn [s_run]. destruct (s_step c o) as [d1 c1] eqn:S1. specialize (IH c1).
    destruct (s_run c1 ops) as [d2 c2]. cbn [fst snd] in *.
    rewrite flat_map_app, <- app_assoc.
    etransitivity; [apply f_equal; exact IH|].
    destruct o as [tds id body| |f b]; cbn [s_step] in S1.
    + inversion S1; subst. simpl. rewrite <- app_assoc. reflexivity.
    + destruct (is_empty c) eqn:E.
      * inversion S1; subst. reflexivity.
      * inversion S1; subst. simpl. rewrite app_nil_r. reflexivity.
    + inversion S1; subst. simpl. reflexivity.
Qed.

(* the specification keeps every item, in order, and every typedef, in order *)
Theorem streams_of_items ops : flat_map snd (streams_of ops) = flat_map item_of ops.
Proof.
  unfold streams_of.
  pose proof (s_run_items (ops ++ [OEnd]) r_init) as H.
  pose proof (s_run_end ops r_init) as E. apply is_empty_true in E.
  rewrite E in H. simpl snd in H. rewrite app_nil_r in H. rewrite H.
  rewrite flat_map_app. simpl. rewrite app_nil_r. reflexivity.
Qed.

Theorem streams_of_defs ops : flat_map fst (streams_of ops) = flat_map defs_of ops.
Proof.
  unfold streams_of.
  pose proof (s_run_defs (ops ++ [OEnd]) r_init) as H.
  pose proof (s_run_end ops r_init) as E. apply is_empty_true in E.
  rewrite E in H. simpl fst in H at 3 4. rewrite app_nil_r in H. rewrite H.
  rewrite flat_map_app. simpl. rewrite app_nil_r. reflexivity.
Qed.

Section Top.

Variable lz4c : bytes -> option bytes.
Variable lz4d : bytes -> N -> option bytes.
Hypothesis lz4_ok : forall b z, lz4c b = Some z -> lz4d z (len b) = Some b.
Hypothesis lz4_len : forall b z, lz4c b = Some z -> len z <= len b.

(* Reading what one writer wrote (any options, any placement of EndStream and
   control messages, then Close), followed by anything else: the reader
   delivers exactly the streams the operations describe and continues with the
   rest in its initial state. *)
Theorem write_then_parse compress thresh ops rest :
  ops_wf ops ->
  parse_from lz4d r_init (write lz4c compress thresh ops ++ rest) =
  option_map (app (streams_of ops)) (parse_from lz4d r_init rest).
Proof.
  intros [W P].
  assert (I0 : inv w_init r_init [] []) by (constructor; try reflexivity; constructor).
  assert (W1 : Forall op_wf (ops ++ [OEnd])) by (apply Forall_app; split; [exact W|repeat constructor]).
  assert (P1 : pend w_init + ops_bytes (ops ++ [OEnd]) < B64).
  { rewrite ops_bytes_app. unfold pend. simpl. lia. }
  destruct (run_sim lz4c lz4d lz4_ok lz4_len compress thresh (ops ++ [OEnd]) w_init r_init [] [] I0 W1 P1)
    as [done [R' [pd' [pv' [I1 [S1 [F1 _]]]]]]].
  unfold write. rewrite F1.
  pose proof (s_run_end ops r_init) as E.
  change (cur r_init [] []) with r_init in S1.
  unfold streams_of. rewrite S1 in *. cbn [fst snd] in *.
  rewrite is_empty_cur in E.
  destruct (is_empty R') eqn:ER; [|discriminate].
  apply is_empty_true in ER. rewrite ER. reflexivity.
Qed.

Theorem zng_roundtrip compress thresh ops :
  ops_wf ops -> parse lz4d (write lz4c compress thresh ops) = Some (streams_of ops).
Proof.
  intros W. unfold parse.
  rewrite <- (app_nil_r (write lz4c compress thresh ops)).
  rewrite write_then_parse by exact W.
  unfold parse_from. simpl. rewrite app_nil_r. reflexivity.
Qed.

Definition wcase := (bool * N * list op)%type.
Definition wcase_bytes (c : wcase) : bytes := write lz4c (fst (fst c)) (snd (fst c)) (snd c).
Definition wcase_streams (c : wcase) : list stream := streams_of (snd c).

(* any number of independently written streams, each with its own options, concatenated *)
Theorem zng_concat (l : list wcase) :
  Forall (fun c => ops_wf (snd c)) l ->
  parse lz4d (flat_map wcase_bytes l) = Some (flat_map wcase_streams l).
Proof.
  unfold parse. induction l as [|c l IH]; intros F.
  - reflexivity.
  - inversion F as [|? ? Wc Wl]; subst. simpl flat_map.
    unfold wcase_bytes at 1. rewrite write_then_parse by exact Wc.
    rewrite IH by exact Wl. reflexivity.
Qed.

(* same order, same type ids, same body bytes: all items the reader delivers,
   across streams, are the items written *)
Theorem zng_items_in_order (l : list wcase) :
  Forall (fun c => ops_wf (snd c)) l ->
  exists ss, parse lz4d (flat_map wcase_bytes l) = Some ss /\
             flat_map snd ss = flat_map (fun c => flat_map item_of (snd c)) l /\
             flat_map fst ss = flat_map (fun c => flat_map defs_of (snd c)) l.
Proof.
  intros F. exists (flat_map wcase_streams l). split; [apply zng_concat; exact F|].
  clear F. split.
  - induction l as [|c l IH]; [reflexivity|]. cbn [flat_map]. rewrite flat_map_app.
    f_equal; [apply streams_of_items|exact IH].
  - induction l as [|c l IH]; [reflexivity|]. cbn [flat_map]. rewrite flat_map_app.
    f_equal; [apply streams_of_defs|exact IH].
Qed.

End Top.

(* non-vacuity: a concrete operation sequence satisfies the hypotheses, with
   compression off (a compressor that never succeeds meets the LZ4 hypotheses) *)
Definition ex_ops : list op :=
  [OWrite [DRecord [([97], 9)]] 30 (Some [2; 2]); OEnd; OEnd;
   OWrite [] 9 None; OControl 3 [104; 105]; OWrite [DNamed [102] 16; DArray 30] 31 (Some [])].

Example ex_ops_wf : ops_wf ex_ops.
Proof.
  split.
  - unfold ex_ops, op_wf, val_wf, tdef_wf, field_wf, body_ok, B64. simpl.
    repeat (constructor; simpl; try lia).
  - vm_compute. reflexivity.
Qed.

Example ex_roundtrip :
  parse (fun _ _ => None) (write (fun _ => None) false 1 ex_ops) = Some (streams_of ex_ops) /\
  List.length (streams_of ex_ops) = 2%nat.
Proof. split; vm_compute; reflexivity. Qed.
